//! Connection layer (src/async_io/mod.rs): replays MC_Conn behaviours on the
//! real `Token::run` with a deterministic single-task executor, transports
//! whose behaviour is scheduled by byte offset, a closed-loop peer and a
//! scripted handler.

use std::collections::{BTreeSet, HashMap, HashSet};
use std::future::Future;
use std::io;
use std::io::BufRead;
use std::panic::{catch_unwind, AssertUnwindSafe};
use std::pin::Pin;
use std::sync::atomic::{AtomicBool, Ordering};
use std::sync::{Arc, Mutex};
use std::task::{Context, Poll, Wake, Waker};

use fastcgi_server::async_io::{Request, Runner};
use fastcgi_server::cgi::VarName;
use fastcgi_server::protocol as fcgi;
use fastcgi_server::{Config, ExitStatus};
use futures_util::io::{AsyncBufReadExt, AsyncRead, AsyncReadExt, AsyncWrite, AsyncWriteExt};
use serde::Deserialize;
use serde_json::{json, Value};

use crate::report::Report;
use crate::rp::{hex, reply_bytes, Mismatch, Reply, MAX_CONNS};
use crate::sp::{ivs_bytes, stream_of};
use crate::wire::{self, Wire};

// ---------------------------------------------------------------------------
// Scenario (mirrors the records of MC_Conn.tla)

#[derive(Deserialize, Clone, Debug)]
pub struct Gate { pub at: usize, pub kind: String, pub n: usize }

#[derive(Deserialize, Clone, Debug)]
pub struct Fault { pub k: String, pub at: usize }

#[derive(Deserialize, Clone, Debug)]
pub struct Status { pub kind: String, pub app: String }

#[derive(Deserialize, Clone, Debug)]
pub struct Op { pub op: String, pub a: usize, pub s: u8, pub st: Status }

#[derive(Deserialize, Clone, Debug)]
#[allow(non_snake_case)]
pub struct Scenario {
    pub tag: String,
    pub w: Wire,
    pub gates: Vec<Gate>,
    pub close: bool,
    pub progs: Vec<Vec<Op>>,
    pub onAbort: Vec<Status>,
    pub fault: Fault,
}

#[derive(Deserialize, Clone)]
#[allow(non_snake_case)]
pub struct CaseLine { pub c: u64, pub B: usize, pub scen: Scenario }

pub struct Case { pub id: u64, pub b: usize, pub scen: Scenario, pub seed: u64, pub bytes: Vec<u8>, pub streams: Vec<Vec<u8>> }

impl Case {
    pub fn new(cl: CaseLine, seed: u64) -> Result<Self, String> {
        let s = seed.wrapping_mul(0x1000_0000_01b3).wrapping_add(cl.c);
        Self::with_seed(cl, s)
    }
    /// `s` is the derived per-case seed (recorded in replay files)
    pub fn with_seed(cl: CaseLine, s: u64) -> Result<Self, String> {
        // phases: the connection's request parsers start wherever the previous request was closed; for the
        // menu wires every request is read to its end or its remainder is skipped by the next Header mode,
        // so sessions are delimited by BeginRequest records of accepted roles (phase starts = their offsets)
        let phases: Vec<u64> = cl.scen.w.recs.iter().filter(|r| r.ty == wire::T_BEGIN && r.ver == 1).map(|r| r.off).collect();
        let mut ph = vec![0u64];
        ph.extend(phases);
        ph.sort_unstable(); ph.dedup();
        let enc = wire::encode_phased(&cl.scen.w, s, &ph)?;
        Ok(Self { id: cl.c, b: cl.B, scen: cl.scen, seed: s, bytes: enc.bytes, streams: enc.streams })
    }
}

pub fn exit_status(st: &Status) -> ExitStatus {
    match st.kind.as_str() {
        "overloaded" => ExitStatus::Overloaded,
        "unknownrole" => ExitStatus::UnknownRole,
        _ => ExitStatus::Complete(app_code(&st.app)),
    }
}
pub fn app_code(app: &str) -> u32 {
    if app == "ABRT" { u32::from_be_bytes(*b"ABRT") } else { app.parse().unwrap_or(0) }
}

// ---------------------------------------------------------------------------
// Output items

#[derive(Deserialize, Clone, Debug)]
pub struct Item { pub k: String, pub r: Reply, pub s: u8, pub n: usize, pub id: u32, pub app: String, pub pstat: u8 }

/// payload byte i of the record a handler writes to stream s in request number q
pub fn payload_byte(seed: u64, q: usize, s: u8, i: usize) -> u8 { wire::prf(seed ^ 0x77, ((q as u64) << 40) | (u64::from(s) << 32) | i as u64) }

pub fn item_bytes(it: &Item, seed: u64, reqno: usize) -> Vec<u8> {
    match it.k.as_str() {
        "rep" => reply_bytes(&it.r, seed, MAX_CONNS, true),
        "rec" => {
            let pad = (8 - it.n % 8) % 8;
            let mut v = vec![1, it.s];
            v.extend(wire::map_id(seed, it.id).to_be_bytes());
            v.extend((it.n as u16).to_be_bytes());
            v.extend([pad as u8, 0]);
            for i in 0..it.n { v.push(payload_byte(seed, reqno, it.s, i)); }
            v.extend(std::iter::repeat(0).take(pad));
            v
        },
        "eos" => { let mut v = vec![1, it.s]; v.extend(wire::map_id(seed, it.id).to_be_bytes()); v.extend([0, 0, 0, 0]); v },
        "end" => {
            let mut v = vec![1, 3];
            v.extend(wire::map_id(seed, it.id).to_be_bytes());
            v.extend([0, 8, 0, 0]);
            v.extend(app_code(&it.app).to_be_bytes());
            v.extend([it.pstat, 0, 0, 0]);
            v
        },
        o => panic!("unknown item kind {o}"),
    }
}

/// A complete record found in the outbound byte stream.
#[derive(Debug, Clone, PartialEq)]
pub struct OutRec { pub ty: u8, pub id: u16, pub body: Vec<u8>, pub plen: usize }

pub fn decode_out(b: &[u8]) -> (Vec<OutRec>, usize) {
    let mut out = Vec::new();
    let mut o = 0;
    while b.len() - o >= 8 {
        let clen = usize::from(u16::from_be_bytes([b[o + 4], b[o + 5]]));
        let plen = usize::from(b[o + 6]);
        if b.len() - o < 8 + clen + plen { break; }
        out.push(OutRec { ty: b[o + 1], id: u16::from_be_bytes([b[o + 2], b[o + 3]]), body: b[o + 8..o + 8 + clen].to_vec(), plen });
        o += 8 + clen + plen;
    }
    (out, b.len() - o)
}

fn is_mgmt_reply(r: &OutRec) -> bool { r.ty == 10 || r.ty == 11 }
fn is_end(r: &OutRec) -> bool { r.ty == 3 }

// ---------------------------------------------------------------------------
// Mock transport, scheduled by byte offset

pub struct Shared {
    pub wire: Vec<u8>,
    pub gates: Vec<Gate>,
    pub close: bool,
    pub fault: Fault,
    pub in_read: usize,
    pub rcuts: BTreeSet<usize>,
    pub rpend: HashSet<usize>,
    pub out: Vec<u8>,
    pub wcuts: BTreeSet<usize>,
    pub wpend: HashSet<usize>,
    /// a spurious Pending was returned: the executor polls the task again
    pub self_wake: bool,
    /// shutdown is to be requested at these suspension points: ('r'|'w'|'p', offset)
    pub stop_at: HashSet<(char, usize)>,
    pub stop_now: bool,
    /// the last poll_read found nothing to deliver and suspended
    pub parked_on_read: bool,
    pub write_failed: bool,
    pub wrote_after_failure: bool,
    pub reads: u64,
    pub writes: u64,
    /// trace mode: outcomes are drawn from this generator instead of the offset schedule, and recorded
    pub random: Option<rand::rngs::StdRng>,
    pub events: Vec<Value>,
    /// replay mode: the implementation asked the transport for fewer bytes than the schedule delivers at this point
    /// (how much is requested in one read is the implementation's choice): the behaviour cannot be forced onto it
    pub unsteered: Option<String>,
}

impl Shared {
    pub fn released(&self) -> usize {
        let (recs, _) = decode_out(&self.out);
        let ends = recs.iter().filter(|r| is_end(r)).count();
        let mgmt = recs.iter().filter(|r| is_mgmt_reply(r)).count();
        let mut lim = self.wire.len();
        for g in &self.gates {
            let open = if g.kind == "end" { ends >= g.n } else { mgmt >= g.n };
            if !open { lim = lim.min(g.at); break; }
        }
        if self.fault.k == "eof" { lim = lim.min(self.fault.at); }
        lim
    }
    pub fn at_eof(&self) -> bool {
        self.in_read == self.released() && ((self.fault.k == "eof" && self.in_read == self.fault.at) || (self.close && self.in_read == self.wire.len()))
    }
}

#[derive(Clone)]
pub struct MockIo(pub Arc<Mutex<Shared>>);
impl std::fmt::Debug for MockIo { fn fmt(&self, f: &mut std::fmt::Formatter<'_>) -> std::fmt::Result { f.write_str("MockIo") } }

impl AsyncRead for MockIo {
    fn poll_read(self: Pin<&mut Self>, cx: &mut Context<'_>, buf: &mut [u8]) -> Poll<io::Result<usize>> {
        let mut s = self.0.lock().unwrap_or_else(std::sync::PoisonError::into_inner);
        s.reads += 1;
        s.parked_on_read = false;
        // watchdog: a task that keeps calling the transport without ever yielding spins inside one poll
        if s.reads > 4 * s.wire.len() as u64 + 4000 { panic!("spin: transport read polled {} times for {} bytes of input", s.reads, s.wire.len()); }
        if buf.is_empty() { if s.random.is_some() { s.events.push(json!({"e": "r0"})); } return Poll::Ready(Ok(0)); }
        if s.fault.k == "rerr" && s.fault.at == s.in_read { if s.random.is_some() { s.events.push(json!({"e": "re"})); } return Poll::Ready(Err(io::Error::new(io::ErrorKind::Other, "injected read error"))); }
        let released = s.released();
        let avail = released - s.in_read;
        if avail == 0 {
            if s.at_eof() { if s.random.is_some() { s.events.push(json!({"e": "r0"})); } return Poll::Ready(Ok(0)); }
            s.parked_on_read = true;
            let at = s.in_read;
            if s.stop_at.remove(&('p', at)) { s.stop_now = true; s.self_wake = true; }
            if s.random.is_some() { s.events.push(json!({"e": "park", "stop": false})); }
            let _ = cx;
            return Poll::Pending;
        }
        let at = s.in_read;
        if let Some(rng) = s.random.as_mut() {
            use rand::Rng;
            let cap = buf.len().min(avail);
            if rng.gen_bool(0.04) && !s.rpend.contains(&at) {
                s.rpend.insert(at);
                s.self_wake = true;
                s.events.push(json!({"e": "rp", "stop": false}));
                return Poll::Pending;
            }
            let rng = s.random.as_mut().expect("rng");
            let n = match rng.gen_range(0..6) { 0 => 1, 1 => cap.min(rng.gen_range(1..=9)), 2 | 3 => cap, _ => rng.gen_range(1..=cap) };
            buf[..n].copy_from_slice(&s.wire[at..at + n]);
            s.in_read += n;
            s.events.push(json!({"e": "r", "n": n}));
            return Poll::Ready(Ok(n));
        }
        if s.rpend.remove(&at) {
            s.self_wake = true;
            if s.stop_at.remove(&('r', at)) { s.stop_now = true; }
            return Poll::Pending;
        }
        let next_cut = s.rcuts.range(at + 1..).next().copied().unwrap_or(usize::MAX);
        let sched = avail.min(next_cut - at);
        if buf.len() < sched && s.unsteered.is_none() && !s.rcuts.is_empty() {
            s.unsteered = Some(format!("read at inbound offset {at}: the implementation asked for {} bytes where the behaviour delivers {sched}", buf.len()));
        }
        let n = buf.len().min(sched);
        buf[..n].copy_from_slice(&s.wire[at..at + n]);
        s.in_read += n;
        Poll::Ready(Ok(n))
    }
}

impl MockIo {
    fn write_slices(&self, bufs: &[&[u8]]) -> Poll<io::Result<usize>> {
        let mut s = self.0.lock().unwrap_or_else(std::sync::PoisonError::into_inner);
        s.writes += 1;
        if s.writes > 20_000 + 8 * s.wire.len() as u64 { panic!("spin: transport write polled {} times", s.writes); }
        let total: usize = bufs.iter().map(|b| b.len()).sum();
        if s.write_failed { s.wrote_after_failure = true; }
        let at = s.out.len();
        if (s.fault.k == "werr" || s.fault.k == "wzero") && s.fault.at == at && total > 0 {
            s.write_failed = true;
            if s.random.is_some() { let kind = if s.fault.k == "werr" { "Other" } else { "WriteZero" }; s.events.push(json!({"e": "we", "kind": kind})); }
            return if s.fault.k == "werr" { Poll::Ready(Err(io::Error::new(io::ErrorKind::Other, "injected write error"))) } else { Poll::Ready(Ok(0)) };
        }
        if total == 0 { return Poll::Ready(Ok(0)); }
        // the transport breaks once exactly fault.at bytes were accepted: a call starting before that offset is cut there
        let total = if (s.fault.k == "werr" || s.fault.k == "wzero") && at < s.fault.at { total.min(s.fault.at - at) } else { total };
        if let Some(rng) = s.random.as_mut() {
            use rand::Rng;
            if rng.gen_bool(0.04) && !s.wpend.contains(&at) {
                s.wpend.insert(at);
                s.self_wake = true;
                s.events.push(json!({"e": "wp", "stop": false}));
                return Poll::Pending;
            }
            let rng = s.random.as_mut().expect("rng");
            let mut k = match rng.gen_range(0..6) { 0 => 1, 1 => total.min(rng.gen_range(1..=9)), 2 | 3 => total, _ => rng.gen_range(1..=total) };
            let accepted = k;
            for b in bufs { let take = b.len().min(k); s.out.extend(&b[..take]); k -= take; if k == 0 { break; } }
            s.events.push(json!({"e": "w", "k": accepted}));
            return Poll::Ready(Ok(accepted));
        }
        if s.wpend.remove(&at) {
            s.self_wake = true;
            if s.stop_at.remove(&('w', at)) { s.stop_now = true; }
            return Poll::Pending;
        }
        let next_cut = s.wcuts.range(at + 1..).next().copied().unwrap_or(usize::MAX);
        let mut k = total.min(next_cut - at);
        let accepted = k;
        for b in bufs {
            let take = b.len().min(k);
            s.out.extend(&b[..take]);
            k -= take;
            if k == 0 { break; }
        }
        Poll::Ready(Ok(accepted))
    }
}

impl AsyncWrite for MockIo {
    fn poll_write(self: Pin<&mut Self>, _: &mut Context<'_>, buf: &[u8]) -> Poll<io::Result<usize>> { self.write_slices(&[buf]) }
    fn poll_write_vectored(self: Pin<&mut Self>, _: &mut Context<'_>, bufs: &[io::IoSlice<'_>]) -> Poll<io::Result<usize>> {
        let v: Vec<&[u8]> = bufs.iter().map(|b| &**b).collect();
        self.write_slices(&v)
    }
    fn poll_flush(self: Pin<&mut Self>, _: &mut Context<'_>) -> Poll<io::Result<()>> { Poll::Ready(Ok(())) }
    fn poll_close(self: Pin<&mut Self>, _: &mut Context<'_>) -> Poll<io::Result<()>> { Poll::Ready(Ok(())) }
}

fn constrain<F>(f: F) -> F
where F: for<'a, 'b> FnMut(&'a mut Request<'b, MockIo, MockIo>) -> futures_util::future::BoxFuture<'a, io::Result<ExitStatus>> { f }

struct FlagWaker(AtomicBool);
impl Wake for FlagWaker {
    fn wake(self: Arc<Self>) { self.0.store(true, Ordering::SeqCst); }
    fn wake_by_ref(self: &Arc<Self>) { self.0.store(true, Ordering::SeqCst); }
}

// ---------------------------------------------------------------------------
// Scripted handler

#[derive(Debug, Clone, Default, Deserialize)]
pub struct ReqObs { pub id: u32, pub role: u32, pub flags: u32 }

#[derive(Debug, Clone, Default, Deserialize)]
pub struct LogEntry {
    pub op: String,
    pub ok: bool,
    pub n: usize,
    #[serde(default)] pub got: Vec<(u64, u64)>,
    #[serde(default)] pub err: String,
    pub wr: bool,
    #[serde(default)] pub req: Option<ReqObs>,
    #[serde(default)] pub sess: usize,
    #[serde(default)] pub env: Vec<(u32, u64)>,
}

/// What the real handler observed for one op.
#[derive(Debug, Clone, Default)]
pub struct RealEntry {
    pub active: u8,
    pub op: String, pub ok: bool, pub n: usize, pub bytes: Vec<u8>, pub err: String, pub wr: bool,
    pub id: u16, pub role: u16, pub flags: u8, pub env: Vec<(String, Vec<u8>)>, pub env_checks: Vec<String>,
}

pub fn err_kind(e: &io::Error) -> String {
    match e.kind() {
        io::ErrorKind::ConnectionAborted => "ConnectionAborted".into(),
        io::ErrorKind::UnexpectedEof => "UnexpectedEof".into(),
        io::ErrorKind::InvalidData => "InvalidData".into(),
        io::ErrorKind::WriteZero => "WriteZero".into(),
        io::ErrorKind::Other => "Other".into(),
        k => format!("{k:?}"),
    }
}

pub struct HandlerState { pub progs: Vec<Vec<Op>>, pub on_abort: Vec<Status>, pub calls: usize, pub log: Vec<RealEntry>, pub seed: u64, pub lookups: Vec<Vec<String>> }

async fn run_prog(req: &mut Request<'_, MockIo, MockIo>, st: Arc<Mutex<HandlerState>>) -> io::Result<ExitStatus> {
    let (prog, on_abort, q, seed, lookups) = {
        let mut h = st.lock().expect("handler lock");
        h.calls += 1;
        let q = h.calls;
        let idx = (q - 1).min(h.progs.len() - 1);
        (h.progs[idx].clone(), h.on_abort[(q - 1).min(h.on_abort.len() - 1)].clone(), q, h.seed, h.lookups.get(q - 1).cloned().unwrap_or_default())
    };
    let push = |e: RealEntry| st.lock().expect("handler lock").log.push(e);
    {
        let env: Vec<(String, Vec<u8>)> = req.env_iter().map(|(n, v)| (n.as_ref().to_string(), v.to_vec())).collect();
        let mut checks = Vec::new();
        for name in &lookups {
            let v = req.get_var(VarName::new(name)).map(<[u8]>::to_vec);
            checks.push(format!("{name}={}", v.map_or("<none>".to_string(), |b| hex(&b))));
        }
        // the request id has no accessor; it is part of the Debug rendering of the embedded parser::Request
        let dbg = format!("{req:?}");
        let id = dbg.find("request_id: ").and_then(|i| dbg[i + 12..].split(|c: char| !c.is_ascii_digit()).next().and_then(|d| d.parse::<u16>().ok())).unwrap_or(0);
        push(RealEntry { op: "begin".into(), ok: true, n: env.len(), id, wr: req.is_writeable(), role: u16::from(req.role()), flags: req.flags().bits(), env, env_checks: checks, ..Default::default() });
    }
    let fail = |req: &Request<'_, MockIo, MockIo>, op: &str, e: io::Error| -> (RealEntry, io::Error) {
        (RealEntry { op: op.into(), ok: false, err: err_kind(&e), wr: req.is_writeable(), ..Default::default() }, e)
    };
    macro_rules! bail {
        ($req:expr, $op:expr, $e:expr) => {{
            let (entry, e) = fail($req, $op, $e);
            push(entry);
            if e.kind() == io::ErrorKind::ConnectionAborted && on_abort.kind != "propagate" { return Ok(exit_status(&on_abort)); }
            return Err(e);
        }};
    }
    for op in &prog {
        match op.op.as_str() {
            "read" | "readall" => loop {
                let mut buf = vec![0u8; op.a];
                let act = crate::sp::stream_code(req.active_stream());
                match req.read(&mut buf).await {
                    Ok(n) => { push(RealEntry { active: act, op: "read".into(), ok: true, n, bytes: buf[..n].to_vec(), wr: req.is_writeable(), ..Default::default() });
                        if op.op == "read" || n == 0 { break; } },
                    Err(e) => bail!(req, "read", e),
                }
            },
            "fill" => { let act = crate::sp::stream_code(req.active_stream()); match req.fill_buf().await {
                Ok(b) => { let bytes = b.to_vec(); push(RealEntry { active: act, op: "fill".into(), ok: true, n: bytes.len(), bytes, wr: req.is_writeable(), ..Default::default() }); },
                Err(e) => bail!(req, "fill", e),
            } },
            "consume" => { req.consume_unpin(op.a); push(RealEntry { op: "consume".into(), ok: true, n: op.a, wr: req.is_writeable(), ..Default::default() }); },
            "setstream" => {
                let s = stream_of(op.s);
                let ok = match s { Some(s) => catch_unwind(AssertUnwindSafe(|| req.set_stream(s))).is_ok(), None => false };
                push(RealEntry { op: "setstream".into(), ok, n: usize::from(op.s), wr: req.is_writeable(), ..Default::default() });
            },
            "writeable" => match req.writeable().await {
                Ok(()) => push(RealEntry { op: "writeable".into(), ok: true, wr: req.is_writeable(), ..Default::default() }),
                Err(e) => bail!(req, "writeable", e),
            },
            "write" => {
                let stream = if op.s == 7 { fcgi::RecordType::Stderr } else { fcgi::RecordType::Stdout };
                let data: Vec<u8> = (0..op.a).map(|i| payload_byte(seed, q, op.s, i)).collect();
                let mut w = req.output_stream(stream);
                let r = w.write_all(&data).await;
                drop(w);
                match r {
                    Ok(()) => push(RealEntry { op: "write".into(), ok: true, n: op.a, wr: req.is_writeable(), ..Default::default() }),
                    Err(e) => bail!(req, "write", e),
                }
            },
            "flush" => {
                let stream = if op.s == 7 { fcgi::RecordType::Stderr } else { fcgi::RecordType::Stdout };
                let mut w = req.output_stream(stream);
                let r = w.flush().await;
                drop(w);
                match r { Ok(()) => push(RealEntry { op: "flush".into(), ok: true, wr: req.is_writeable(), ..Default::default() }), Err(e) => bail!(req, "flush", e) }
            },
            "ret" => return Ok(exit_status(&op.st)),
            o => panic!("unknown handler op {o}"),
        }
    }
    Ok(ExitStatus::SUCCESS)
}

// ---------------------------------------------------------------------------
// Behaviours and their replay

#[derive(Deserialize, Debug, Clone)]
pub struct Obs {
    pub ended: String,
    pub parked: bool,
    #[serde(rename = "inRead")] pub in_read: usize,
    pub outw: usize,
    pub out: Vec<Item>,
    pub hlog: Vec<LogEntry>,
    pub nreq: usize,
    pub stop: bool,
}

#[derive(Deserialize)]
pub struct BehLine { pub c: u64, pub h: Vec<Vec<Value>>, pub obs: Obs }

pub struct RunResult {
    pub unsteered: Option<String>,
    pub returned: bool,
    pub panicked: Option<String>,
    pub spun: bool,
    pub parked_on_read: bool,
    pub in_read: usize,
    pub out: Vec<u8>,
    pub log: Vec<RealEntry>,
    pub calls: usize,
    pub wrote_after_failure: bool,
    pub polls: u64,
    /// the connection's token permit was available to another request while run() had not returned
    pub permit_early: Option<String>,
    /// the permit was still unavailable after run() returned
    pub permit_stuck: bool,
}

/// Number of replies owed for the records completely contained in the first `lim` bytes
/// (GetValues with a non-empty body, unknown record types) -- Conn!OwedUpTo.
pub fn owed_up_to(w: &Wire, lim: u64) -> usize {
    let mut n = 0;
    for r in &w.recs {
        if r.ver != 1 { break; }
        if !(1..=11).contains(&r.ty) { if r.off + 8 <= lim { n += 1; } }
        else if r.ty == wire::T_GETVALUES && r.id == 0 && r.clen > 0 && r.off + 8 + r.clen <= lim { n += 1; }
    }
    n
}

/// Runs Token::run on the scenario under the schedule derived from `h`.
pub fn execute(case: &Case, h: &[Vec<Value>]) -> RunResult { execute_with(case, h, None).0 }

/// `random`: trace mode (transport outcomes drawn at random and recorded); returns the recorded events.
pub fn execute_with(case: &Case, h: &[Vec<Value>], random: Option<rand::rngs::StdRng>) -> (RunResult, Vec<Value>) {
    // schedule by offset
    let (mut in_off, mut out_off) = (0usize, 0usize);
    let mut rcuts = BTreeSet::new(); let mut wcuts = BTreeSet::new();
    let mut rpend = HashSet::new(); let mut wpend = HashSet::new();
    let mut stop_at = HashSet::new();
    let mut stop_first = false;
    for ev in h {
        let k = ev[0].as_str().unwrap_or("");
        let stop = ev.get(1).and_then(Value::as_str) == Some("stop");
        match k {
            "r" => { in_off += ev[1].as_u64().unwrap_or(0) as usize; rcuts.insert(in_off); },
            "w" => { out_off += ev[1].as_u64().unwrap_or(0) as usize; wcuts.insert(out_off); },
            "rp" => { rpend.insert(in_off); if stop { stop_at.insert(('r', in_off)); } },
            "wp" => { wpend.insert(out_off); if stop { stop_at.insert(('w', out_off)); } },
            "park" => { if stop { stop_at.insert(('p', in_off)); } },
            "stop" => stop_first = true,
            _ => {},
        }
    }
    let shared = Arc::new(Mutex::new(Shared {
        wire: case.bytes.clone(), gates: case.scen.gates.clone(), close: case.scen.close, fault: case.scen.fault.clone(),
        in_read: 0, rcuts, rpend, out: Vec::new(), wcuts, wpend, self_wake: false, stop_at, stop_now: false,
        parked_on_read: false, write_failed: false, wrote_after_failure: false, reads: 0, writes: 0, random, events: Vec::new(), unsteered: None,
    }));
    // the connection limit equals the number of tokens handed out below (MAX_CONNS - 1 spare tokens are held by the
    // harness), so the connection's own token is the last permit: nobody else can get one while run() is in progress
    let mut config = Config::with_conns(MAX_CONNS.try_into().expect("nz"));
    config.buffer_size = case.b;
    let runner: Runner = config.async_runner();
    let probe_waker: Waker = Arc::new(FlagWaker(AtomicBool::new(false))).into();
    let mut spare: Vec<fastcgi_server::async_io::Token> = Vec::new();
    for _ in 1..MAX_CONNS {
        let fut = runner.get_token();
        futures_util::pin_mut!(fut);
        if let Poll::Ready(t) = fut.poll(&mut Context::from_waker(&probe_waker)) { spare.push(t); }
    }
    let token = {
        let fut = runner.get_token();
        futures_util::pin_mut!(fut);
        let w: Waker = Arc::new(FlagWaker(AtomicBool::new(false))).into();
        match fut.poll(&mut Context::from_waker(&w)) { Poll::Ready(t) => t, Poll::Pending => panic!("no token available") }
    };
    let mut runner = Some(runner);
    // names to look up in each request's environment: the raw spellings of its pairs
    let all_names: Vec<String> = case.scen.w.pairs.iter().enumerate().flat_map(|(k, ps)| {
        ps.iter().filter(move |p| p.end() <= case.streams.get(k).map_or(0, Vec::len) as u64)
            .map(move |p| String::from_utf8_lossy(&case.streams[k][p.name_at() as usize..(p.name_at() + p.n) as usize]).to_ascii_lowercase())
    }).collect();
    let lookups: Vec<Vec<String>> = (0..case.scen.progs.len().max(1)).map(|_| all_names.clone()).collect();
    let hstate = Arc::new(Mutex::new(HandlerState { progs: case.scen.progs.clone(), on_abort: case.scen.onAbort.clone(), calls: 0, log: Vec::new(), seed: case.seed, lookups }));
    let hs = hstate.clone();
    let handler = constrain(move |req| {
        let st = hs.clone();
        Box::pin(async move { run_prog(req, st).await })
    });
    let io_r = MockIo(shared.clone());
    let io_w = MockIo(shared.clone());
    let flag = Arc::new(FlagWaker(AtomicBool::new(false)));
    let waker: Waker = flag.clone().into();
    let mut res = RunResult { unsteered: None, returned: false, panicked: None, spun: false, parked_on_read: false, in_read: 0, out: Vec::new(), log: Vec::new(), calls: 0, wrote_after_failure: false, polls: 0, permit_early: None, permit_stuck: false };
    if stop_first { if let Some(r) = runner.take() { drop(r.shutdown()); } }
    let mut permit_early: Option<String> = None;
    let outcome = catch_unwind(AssertUnwindSafe(|| {
        let mut fut = Box::pin(token.run(io_r, io_w, handler));
        let budget = 4 * (case.bytes.len() as u64 + 64) * 8 + 2000;
        let mut polls = 0u64;
        loop {
            polls += 1;
            if polls > budget { return (false, true, polls); }
            flag.0.store(false, Ordering::SeqCst);
            if fut.as_mut().poll(&mut Context::from_waker(&waker)).is_ready() { return (true, false, polls); }
            // C13: while the connection is suspended inside run(), its token's slot must not be available to anyone else
            if let Some(r) = runner.as_ref() {
                let probe = r.get_token();
                futures_util::pin_mut!(probe);
                if probe.poll(&mut Context::from_waker(&probe_waker)).is_ready() && permit_early.is_none() {
                    let s = shared.lock().unwrap_or_else(std::sync::PoisonError::into_inner);
                    permit_early = Some(format!("after {} inbound / {} outbound bytes", s.in_read, s.out.len()));
                }
            }
            let (again, stop_now) = { let mut s = shared.lock().expect("mock lock"); let a = std::mem::take(&mut s.self_wake); let st = std::mem::take(&mut s.stop_now); (a, st) };
            if stop_now { if let Some(r) = runner.take() { drop(r.shutdown()); } }
            if again || stop_now || flag.0.load(Ordering::SeqCst) { continue; }
            return (false, false, polls);
        }
    }));
    res.permit_early = permit_early;
    match outcome {
        Ok((returned, spun, polls)) => {
            res.returned = returned; res.spun = spun; res.polls = polls;
            if returned {
                if let Some(r) = runner.as_ref() {
                    let probe = r.get_token();
                    futures_util::pin_mut!(probe);
                    res.permit_stuck = probe.poll(&mut Context::from_waker(&probe_waker)).is_pending();
                }
            }
        },
        Err(p) => res.panicked = Some(p.downcast_ref::<String>().cloned().or_else(|| p.downcast_ref::<&str>().map(|s| s.to_string())).unwrap_or_else(|| "panic".into())),
    }
    let s = shared.lock().unwrap_or_else(std::sync::PoisonError::into_inner);
    res.parked_on_read = !res.returned && s.parked_on_read;
    res.in_read = s.in_read;
    res.unsteered = s.unsteered.clone();
    res.out = s.out.clone();
    res.wrote_after_failure = s.wrote_after_failure;
    let h = hstate.lock().unwrap_or_else(std::sync::PoisonError::into_inner);
    res.log = h.log.clone();
    res.calls = h.calls;
    let events = s.events.clone();
    (res, events)
}

pub fn owns(prop: &str, field: &str) -> bool {
    match field {
        "panic" | "spin" => true,
        "returned" => matches!(prop, "C07" | "C08" | "C11" | "C12" | "C14"),
        "out" | "epilogue" => matches!(prop, "C07" | "C11" | "C12" | "C14" | "C08"),
        "nreq" | "begin" => matches!(prop, "C07" | "C11" | "C12" | "C14"),
        "input" => matches!(prop, "C07" | "C09" | "C11"),
        "wrflag" => matches!(prop, "C09"),
        "err" => matches!(prop, "C09" | "C11" | "C12"),
        "owed" => matches!(prop, "C08"),
        "permit" => matches!(prop, "C13"),
        "after-failure" => matches!(prop, "C12"),
        _ => false,
    }
}

/// Compares a run of the real code with the specification's prediction.
pub fn compare(case: &Case, obs: &Obs, r: &RunResult) -> (Vec<Mismatch>, Vec<String>) {
    let mut mm = Vec::new();
    let mut drift = Vec::new();
    if let Some(p) = &r.panicked {
        if p.starts_with("spin:") { mm.push(Mismatch { field: "spin", what: format!("connection task spins without yielding: {p}") }); }
        else { mm.push(Mismatch { field: "panic", what: format!("connection task panicked: {p}") }); }
        return (mm, drift);
    }
    if r.spun { mm.push(Mismatch { field: "spin", what: format!("connection task was still being woken after {} polls (spinning)", r.polls) }); return (mm, drift); }
    if r.unsteered.is_none() && r.returned == obs.parked {
        mm.push(Mismatch { field: "returned", what: format!("Token::run {}, specification: {}", if r.returned { "returned" } else { "is suspended" },
            if obs.parked { "suspended waiting for input".to_string() } else { format!("returns ({})", obs.ended) }) });
    }
    // C08 predicate on the real run, independent of the model's prediction
    if r.parked_on_read {
        let (recs, _) = decode_out(&r.out);
        let sent = recs.iter().filter(|x| is_mgmt_reply(x)).count();
        let owed = owed_up_to(&case.scen.w, r.in_read as u64);
        if sent < owed {
            mm.push(Mismatch { field: "owed", what: format!("suspended waiting for input at inbound offset {} with {owed} replies owed for the records read so far, only {sent} handed to the transport", r.in_read) });
        }
    }
    if r.wrote_after_failure { mm.push(Mismatch { field: "after-failure", what: "the transport was written to again after a failed write".into() }); }
    if let Some(w) = &r.permit_early { mm.push(Mismatch { field: "permit", what: format!("a request for a token completed while the connection holding the last slot was still running ({w}): more live tokens than max_conns") }); }
    if r.permit_stuck { mm.push(Mismatch { field: "permit", what: "the connection's slot is still taken after Token::run returned".into() }); }
    if let Some(u) = &r.unsteered {
        // the model-independent predicates above still apply; the prediction belongs to a different behaviour
        drift.push(format!("behaviour not followed ({u}); prediction not compared - such executions are decided by trace validation"));
        return (mm, drift);
    }
    // outbound bytes
    let mut want = Vec::new();
    let mut reqno = 0usize;
    // request number of each item: handler records belong to the request being served when they were written
    let mut ends = 0usize;
    for it in &obs.out {
        reqno = ends + 1;
        want.extend(item_bytes(it, case.seed, reqno));
        if it.k == "end" { ends += 1; }
    }
    let _ = reqno;
    want.truncate(obs.outw);
    if r.out != want {
        let (got_recs, got_tail) = decode_out(&r.out);
        let (want_recs, want_tail) = decode_out(&want);
        let class = |x: &OutRec| if is_mgmt_reply(x) || (is_end(x) && x.body.get(4).is_some_and(|&p| p == 1 || p == 3)) { 0 } else if x.ty == 6 || x.ty == 7 { if x.body.is_empty() { 2 } else { 1 } } else { 2 };
        let proj = |v: &[OutRec], c: i32| v.iter().filter(|x| class(x) == c).cloned().collect::<Vec<_>>();
        let same_proj = (0..3).all(|c| proj(&got_recs, c) == proj(&want_recs, c)) && got_tail == want_tail && r.out.len() == want.len();
        // every EndRequest of a served request must come after everything else of that request
        if same_proj { drift.push(format!("outbound records are the specification's per producer, in a different total order: {:?}", got_recs.iter().map(|x| (x.ty, x.body.len())).collect::<Vec<_>>())); }
        else {
            mm.push(Mismatch { field: "out", what: format!("bytes handed to the transport decode to {:?} (+{} bytes), specification {:?} (+{} bytes)",
                got_recs.iter().map(|x| (x.ty, x.id, x.body.len(), x.plen)).collect::<Vec<_>>(), got_tail,
                want_recs.iter().map(|x| (x.ty, x.id, x.body.len(), x.plen)).collect::<Vec<_>>(), want_tail) });
        }
    }
    // handler invocations and what they observed
    let begins = r.log.iter().filter(|e| e.op == "begin").count();
    if begins != obs.nreq || r.calls != obs.nreq {
        mm.push(Mismatch { field: "nreq", what: format!("{} handler invocations, specification {}", r.calls, obs.nreq) });
    }
    let n = r.log.len().min(obs.hlog.len());
    if r.log.len() != obs.hlog.len() && begins == obs.nreq {
        mm.push(Mismatch { field: "input", what: format!("handler performed {} operations, specification {}: {:?}", r.log.len(), obs.hlog.len(), r.log.iter().map(|e| (e.op.clone(), e.ok, e.n)).collect::<Vec<_>>()) });
    }
    for i in 0..n {
        let (got, want) = (&r.log[i], &obs.hlog[i]);
        if got.op != want.op { mm.push(Mismatch { field: "input", what: format!("handler step {i}: {} vs specification {}", got.op, want.op) }); break; }
        if got.op == "begin" {
            let wr = want.req.clone().unwrap_or_default();
            if u32::from(got.role) != wr.role || u32::from(got.flags) != wr.flags {
                mm.push(Mismatch { field: "begin", what: format!("handler step {i}: request role/flags {}/{}, specification {}/{}", got.role, got.flags, wr.role, wr.flags) });
            }
            // environment: last value wins per key, looked up by a lower-case spelling
            if let Some(pairs) = case.scen.w.pairs.get(want.sess.wrapping_sub(1)) {
                let stream = &case.streams[want.sess - 1];
                if got.env.len() != want.env.len() { mm.push(Mismatch { field: "begin", what: format!("handler step {i}: environment has {} entries, specification {}", got.env.len(), want.env.len()) }); }
                for &(_key, idx) in &want.env {
                    let p = &pairs[idx as usize - 1];
                    let name = String::from_utf8_lossy(&stream[p.name_at() as usize..(p.name_at() + p.n) as usize]).to_ascii_lowercase();
                    let val = hex(&stream[p.value_at() as usize..(p.value_at() + p.v) as usize]);
                    if !got.env_checks.iter().any(|c| *c == format!("{name}={val}")) {
                        mm.push(Mismatch { field: "begin", what: format!("handler step {i}: lookup of {name:?} does not give the value of pair {idx}: {:?}", got.env_checks) });
                    }
                }
            }
            if got.wr != want.wr { mm.push(Mismatch { field: "wrflag", what: format!("handler step {i}: request writeable at start: {}, specification {}", got.wr, want.wr) }); }
            continue;
        }
        if got.ok != want.ok { mm.push(Mismatch { field: if want.ok { "err" } else { "input" }, what: format!("handler step {i} ({}): {} vs specification {}", got.op, if got.ok { "Ok".to_string() } else { format!("Err({})", got.err) }, if want.ok { "Ok".to_string() } else { format!("Err({})", want.err) }) }); break; }
        if !got.ok {
            if got.err != want.err { mm.push(Mismatch { field: "err", what: format!("handler step {i} ({}): error {}, specification {}", got.op, got.err, want.err) }); }
            // the flag as the handler finds it after a failed operation (a poll that did not complete must not have changed it early)
            if got.wr != want.wr { mm.push(Mismatch { field: "wrflag", what: format!("handler step {i} ({}, failed with {}): is_writeable() = {}, specification {}", got.op, got.err, got.wr, want.wr) }); }
            continue;
        }
        match got.op.as_str() {
            "read" | "fill" => {
                let wb = ivs_bytes(&case.bytes, &want.got);
                if got.n != want.n || got.bytes != wb {
                    mm.push(Mismatch { field: "input", what: format!("handler step {i} ({}): got {} bytes {:?}, specification {} bytes wire{:?} = {:?}", got.op, got.n, got.bytes, want.n, want.got, wb) });
                }
            },
            "setstream" => if got.ok != want.ok { mm.push(Mismatch { field: "input", what: format!("handler step {i}: set_stream accepted {}, specification {}", got.ok, want.ok) }); },
            _ => {},
        }
        if got.wr != want.wr { mm.push(Mismatch { field: "wrflag", what: format!("handler step {i} ({}): is_writeable() = {}, specification {}", got.op, got.wr, want.wr) }); }
    }
    if r.in_read != obs.in_read { drift.push(format!("read {} bytes from the transport, modelled {}", r.in_read, obs.in_read)); }
    (mm, drift)
}

/// Reads MC_Conn output (case and behaviour lines) and replays every behaviour.
pub fn run_replay(prop: &str, seed: u64, input: impl BufRead, mut log: Option<std::fs::File>, rep: &mut Report, threads: usize, known: &[String]) {
    use std::io::Write;
    use std::sync::RwLock;
    let cases: Arc<RwLock<HashMap<u64, Arc<Case>>>> = Arc::new(RwLock::new(HashMap::new()));
    type Res = (u64, Vec<Vec<Value>>, Vec<Mismatch>, Vec<String>, Value);
    let results: Arc<Mutex<Vec<Res>>> = Arc::new(Mutex::new(Vec::new()));
    let counts = Arc::new(Mutex::new((0u64, 0u64, HashMap::<String, u64>::new())));
    let summary: Arc<Mutex<HashMap<String, u64>>> = Arc::new(Mutex::new(HashMap::new()));
    let (tx, rx) = std::sync::mpsc::sync_channel::<Vec<String>>(threads * 4);
    let rx = Arc::new(Mutex::new(rx));
    let prev_hook = std::panic::take_hook();
    std::panic::set_hook(Box::new(|_| {}));
    std::thread::scope(|sc| {
        for _ in 0..threads {
            let rx = rx.clone(); let cases = cases.clone(); let results = results.clone(); let counts = counts.clone(); let summary = summary.clone();
            sc.spawn(move || loop {
                let batch = match rx.lock().unwrap().recv() { Ok(b) => b, Err(_) => break };
                let mut n = 0u64; let mut nt = 0u64;
                let mut kinds: HashMap<String, u64> = HashMap::new();
                for line in batch {
                    let inner: String = serde_json::from_str(&line).unwrap_or_else(|e| { eprintln!("malformed TLC line: {e}"); std::process::exit(2) });
                    let b: BehLine = serde_json::from_str(&inner).unwrap_or_else(|e| { eprintln!("malformed behaviour: {e}: {inner:.400}"); std::process::exit(2) });
                    let case = cases.read().unwrap().get(&b.c).cloned().unwrap_or_else(|| { eprintln!("behaviour for unknown case {}", b.c); std::process::exit(2) });
                    n += 1;
                    if b.h.len() > 2 { nt += 1; }
                    *kinds.entry(format!("end:{}", if b.obs.parked { "suspended" } else { b.obs.ended.as_str() })).or_insert(0) += 1;
                    let r = execute(&case, &b.h);
                    let (mm, drift) = compare(&case, &b.obs, &r);
                    if !mm.is_empty() || !drift.is_empty() {
                        {
                            let mut sm = summary.lock().unwrap();
                            for m in &mm { *sm.entry(format!("{}:{}", case.scen.tag, m.field)).or_insert(0) += 1; }
                            if !drift.is_empty() { *sm.entry(format!("{}:drift", case.scen.tag)).or_insert(0) += 1; }
                        }
                        let mut res = results.lock().unwrap();
                        // keep a bounded number of examples per (scenario, field)
                        let key0 = mm.first().map_or("drift", |m| m.field);
                        let same = res.iter().filter(|x| x.0 == b.c && x.2.first().map_or("drift", |m| m.field) == key0).count();
                        // drift-only results have their own budget so that they cannot crowd out mismatches
                        let class_len = res.iter().filter(|x| x.2.is_empty() == mm.is_empty()).count();
                        if same < 3 && class_len < 2000 { res.push((b.c, b.h.clone(), mm, drift, serde_json::from_str(&inner).unwrap_or(Value::Null))); }
                    }
                }
                let mut c = counts.lock().unwrap();
                c.0 += n; c.1 += nt;
                for (k, v) in kinds { *c.2.entry(k).or_insert(0) += v; }
            });
        }
        let mut batch = Vec::with_capacity(200);
        let mut sample: Vec<String> = Vec::new();
        for line in input.lines() {
            let line = line.unwrap_or_else(|e| { eprintln!("read error: {e}"); std::process::exit(2) });
            if line.starts_with("\"{\\\"t\\\":\\\"case\\\"") {
                let inner: String = serde_json::from_str(&line).unwrap_or_else(|e| { eprintln!("malformed case line: {e}"); std::process::exit(2) });
                let cl: CaseLine = serde_json::from_str(&inner).unwrap_or_else(|e| { eprintln!("malformed case: {e}: {inner:.400}"); std::process::exit(2) });
                let case = Case::new(cl, seed).unwrap_or_else(|e| { eprintln!("inconsistent case: {e}"); std::process::exit(2) });
                let fam = case.scen.tag.split('+').next().unwrap_or("").to_string();
                *rep.kinds.entry(format!("scenario:{}", case.scen.tag.split('+').nth(1).map_or("plain", |x| x))).or_insert(0) += 1;
                rep.sample(&format!("scenario:{fam}"), 1, || json!({"case": case.id, "tag": case.scen.tag, "B": case.b, "gates": case.scen.gates.iter().map(|g| json!([g.at, g.kind, g.n])).collect::<Vec<_>>(),
                    "records": case.scen.w.recs.iter().map(|r| json!([r.ty, r.id, r.clen, r.plen])).collect::<Vec<_>>(), "programs": case.scen.progs.iter().map(|p| p.iter().map(|o| format!("{}({},{})", o.op, o.a, o.s)).collect::<Vec<_>>()).collect::<Vec<_>>()}));
                cases.write().unwrap().insert(case.id, Arc::new(case));
            } else if line.starts_with("\"{") {
                if sample.len() < 2 && line.len() > 600 { sample.push(line.clone()); }
                batch.push(line);
                if batch.len() >= 200 { tx.send(std::mem::take(&mut batch)).ok(); }
            } else if let Some(l) = log.as_mut() {
                let _ = writeln!(l, "{line}");
            }
        }
        if !batch.is_empty() { tx.send(batch).ok(); }
        drop(tx);
        for s in sample { if let Ok(inner) = serde_json::from_str::<String>(&s) { if let Ok(v) = serde_json::from_str::<Value>(&inner) { rep.samples.push(v); } } }
    });
    std::panic::set_hook(prev_hook);
    let (n, nt, kinds) = { let c = counts.lock().unwrap(); (c.0, c.1, c.2.clone()) };
    rep.evaluations += n;
    rep.nontrivial += nt;
    *rep.kinds.entry("behaviour".into()).or_insert(0) += n;
    for (k, v) in kinds { *rep.kinds.entry(k).or_insert(0) += v; }
    rep.set("cases", json!(cases.read().unwrap().len()));
    rep.set("mismatch_summary", json!(*summary.lock().unwrap()));
    let mut other: HashMap<String, u64> = HashMap::new();
    let mut known_hit: HashMap<String, u64> = HashMap::new();
    let results = std::mem::take(&mut *results.lock().unwrap());
    for (c, h, mm, drift, beh) in results {
        let case = cases.read().unwrap().get(&c).cloned().expect("case");
        for m in mm {
            if owns(prop, m.field) {
                let key = format!("{}:{}", case.scen.tag, m.field);
                if known.iter().any(|k| *k == key) { *known_hit.entry(key).or_insert(0) += 1; continue; }
                rep.violation(prop, &format!("connection, scenario {} (case {c}, B={}), schedule {}: {}", case.scen.tag, case.b, Value::from(h.clone()), m.what),
                    json!({"kind": "conn-beh", "B": case.b, "seed": case.seed, "scenario_tag": case.scen.tag, "bytes_hex": hex(&case.bytes), "beh": beh, "field": m.field, "key": key,
                           "case": {"c": c, "B": case.b, "scen": serde_json::to_value(ScenarioOut::from(&case.scen)).unwrap_or(Value::Null)}}));
            } else {
                *other.entry(m.field.to_string()).or_insert(0) += 1;
            }
        }
        for d in drift { rep.drift(format!("connection, scenario {}, schedule {}: {d}", case.scen.tag, Value::from(h.clone()))); }
    }
    for (k, n) in known_hit { println!("KNOWN-FINDING: property={prop} {k} ({n} behaviours)"); }
    for (f, n) in other {
        println!("NOTE: {n} behaviour(s) differ in field '{f}', which property {prop} does not own (see the owning property's check)");
        rep.add(&format!("foreign_mismatch_{f}"), n);
    }
}

/// Serializable copy of a scenario for replay files.
#[derive(serde::Serialize)]
#[allow(non_snake_case)]
pub struct ScenarioOut { tag: String, w: Wire, gates: Vec<Value>, close: bool, progs: Vec<Vec<Value>>, onAbort: Vec<Value>, fault: Value }
impl From<&Scenario> for ScenarioOut {
    fn from(s: &Scenario) -> Self {
        let st = |x: &Status| json!({"kind": x.kind, "app": x.app});
        Self { tag: s.tag.clone(), w: s.w.clone(), gates: s.gates.iter().map(|g| json!({"at": g.at, "kind": g.kind, "n": g.n})).collect(), close: s.close,
            progs: s.progs.iter().map(|p| p.iter().map(|o| json!({"op": o.op, "a": o.a, "s": o.s, "st": st(&o.st)})).collect()).collect(),
            onAbort: s.onAbort.iter().map(st).collect(), fault: json!({"k": s.fault.k, "at": s.fault.at}) }
    }
}

pub fn replay_file(prop: &str, r: &Value, rep: &mut Report) {
    let cl: CaseLine = serde_json::from_value(r["case"].clone()).unwrap_or_else(|e| { eprintln!("replay case: {e}"); std::process::exit(2) });
    let case = Case::with_seed(cl, r["seed"].as_u64().unwrap_or(0)).unwrap_or_else(|e| { eprintln!("replay case: {e}"); std::process::exit(2) });
    let b: BehLine = serde_json::from_value(r["beh"].clone()).unwrap_or_else(|e| { eprintln!("replay behaviour: {e}"); std::process::exit(2) });
    let prev_hook = std::panic::take_hook();
    std::panic::set_hook(Box::new(|_| {}));
    let res = execute(&case, &b.h);
    std::panic::set_hook(prev_hook);
    let (mm, _) = compare(&case, &b.obs, &res);
    rep.count("replay", &0u8, true);
    for m in mm { if owns(prop, m.field) { rep.violation(prop, &format!("connection replay, scenario {}: {}", case.scen.tag, m.what), r.clone()); } }
}


// ---------------------------------------------------------------------------
// impl -> spec: seeded random connections recorded for Trace_Conn

use crate::gen;

fn random_program(r: &mut rand::rngs::StdRng, role: u16, small: bool) -> Vec<Op> {
    use rand::Rng;
    let st = |kind: &str, app: &str| Status { kind: kind.into(), app: app.into() };
    let ok0 = st("complete", "0");
    let mk = |op: &str, a: usize, s: u8| Op { op: op.into(), a, s, st: Status { kind: "complete".into(), app: "0".into() } };
    let mut prog = Vec::new();
    let nops = r.gen_range(0..7);
    let mut writeable = role != 3;
    for _ in 0..nops {
        match r.gen_range(0..10) {
            0 | 1 => prog.push(mk("read", gen::pick(r, &[0usize, 1, 3, 64, 5000]), 0)),
            2 | 3 => prog.push(mk("readall", if small { gen::pick(r, &[1usize, 7, 100, 70000]) } else { gen::pick(r, &[3000usize, 70000]) }, 0)),
            4 => { prog.push(mk("fill", 0, 0)); prog.push(mk("consume", gen::pick(r, &[1usize, 5, 100000]), 0)); },
            5 => prog.push(mk("setstream", 0, gen::pick(r, &[5u8, 8, 8]))),
            6 => { prog.push(mk("writeable", 0, 0)); writeable = true; },
            7 | 8 => { if !writeable { prog.push(mk("writeable", 0, 0)); writeable = true; }
                       prog.push(mk("write", gen::pick(r, &[0usize, 1, 7, 8, 9, 300, 65535, 66000]), gen::pick(r, &[6u8, 7]))); },
            _ => { if writeable { prog.push(mk("flush", 0, 6)); } },
        }
    }
    let status = match r.gen_range(0..4) { 0 => st("overloaded", "0"), 1 => st("unknownrole", "0"), 2 => st("complete", "42"), _ => ok0 };
    prog.push(Op { op: "ret".into(), a: 0, s: 0, st: status });
    prog
}

fn app_string(code: u32) -> String { if code == u32::from_be_bytes(*b"ABRT") { "ABRT".into() } else { code.to_string() } }

/// Decodes the complete outbound records into the generic form Trace_Conn compares.
fn generic_items(out: &[u8]) -> Vec<Value> {
    let (recs, _) = decode_out(out);
    recs.iter().map(|r| {
        let (x, app): (u32, String) = match r.ty {
            11 => (u32::from(*r.body.first().unwrap_or(&0)), String::new()),
            3 => (u32::from(*r.body.get(4).unwrap_or(&0)), app_string(u32::from_be_bytes([r.body[0], r.body[1], r.body[2], r.body[3]]))),
            10 => { let mut mask = 0u32; for (n, _) in fcgi::nv::NVIter::new(&r.body[..]) { if let Some((b, _)) = wire::VAR_NAMES.iter().find(|(_, nm)| nm.as_bytes() == n) { mask |= u32::from(*b); } } (mask, String::new()) },
            _ => (0, String::new()),
        };
        json!({"ty": r.ty, "id": r.id, "clen": r.body.len(), "plen": r.plen, "x": x, "app": app})
    }).collect()
}

/// One seeded random connection: returns the ndjson events (reset .. end) or a violation description.
fn trace_connection(seed: u64, s: u64, b: usize) -> Result<(Vec<String>, Value), String> {
    use rand::Rng;
    let mut r = gen::rng(seed.wrapping_mul(9_000_011).wrapping_add(s));
    gen::NO_BEGIN_NOISE.with(|c| c.set(true));
    let big = b >= 4096 && r.gen_bool(0.5);
    let (bytes, reqs) = crate::sp::gen_connection_ids(&mut r, b, big);
    gen::NO_BEGIN_NOISE.with(|c| c.set(false));
    let small = bytes.len() <= 3000;
    let progs: Vec<Vec<Op>> = reqs.iter().map(|&(_, _, role)| random_program(&mut r, role, small)).collect();
    let on_abort: Vec<Status> = reqs.iter().map(|_| if r.gen_bool(0.3) { Status { kind: "complete".into(), app: "9".into() } } else { Status { kind: "propagate".into(), app: "0".into() } }).collect();
    let close = r.gen_bool(0.6);
    let fault = match r.gen_range(0..6) { 0 => Fault { k: "eof".into(), at: r.gen_range(0..=bytes.len()) }, 1 => Fault { k: "werr".into(), at: r.gen_range(0..60) }, _ => Fault { k: "none".into(), at: 0 } };
    let phases: Vec<u64> = reqs.iter().map(|x| x.0 as u64).collect();
    let mut keys = wire::KeyTable::default();
    let w = wire::lex_phased(&bytes, &mut keys, &phases);
    // the client keeps at most one request outstanding: request i+1 is released after EndRequest i was observed
    let gates: Vec<Gate> = reqs.iter().enumerate().skip(1).map(|(i, x)| Gate { at: x.0, kind: "end".into(), n: i }).collect();
    let scen_json = json!({"tag": "random", "w": w, "gates": gates.iter().map(|g| json!({"at": g.at, "kind": g.kind, "n": g.n})).collect::<Vec<_>>(), "close": close,
        "progs": progs.iter().map(|p| p.iter().map(|o| json!({"op": o.op, "a": o.a, "s": o.s, "st": {"kind": o.st.kind, "app": o.st.app}})).collect::<Vec<_>>()).collect::<Vec<_>>(),
        "onAbort": on_abort.iter().map(|x| json!({"kind": x.kind, "app": x.app})).collect::<Vec<_>>(), "fault": {"k": fault.k, "at": fault.at}});
    let scen = Scenario { tag: "random".into(), w: w.clone(), gates, close, progs, onAbort: on_abort, fault };
    let case = Case { id: s, b, scen, seed: seed ^ s, bytes: bytes.clone(), streams: vec![] };
    let res = execute_with(&case, &[], Some(gen::rng(seed ^ (s << 20) ^ 0xabcdef)));
    let (r, events) = res;
    if let Some(p) = &r.panicked { return Err(if p.starts_with("spin:") { format!("connection task spins without yielding: {p}") } else { format!("connection task panicked: {p}") }); }
    if r.spun { return Err(format!("connection task was still being woken after {} polls", r.polls)); }
    if r.wrote_after_failure { return Err("the transport was written to again after a failed write".into()); }
    // handler log with delivered bytes located on the wire
    let mut hlog = Vec::new();
    let mut q = 0usize;
    let mut loc = crate::sp::Locator { recs: &w.recs, bytes: &bytes, cursor: 0, dry: false };
    let mut last_fill: Vec<u8> = Vec::new();
    let mut own = 0u32;
    for e in &r.log {
        let mut got: Vec<(u64, u64)> = Vec::new();
        let mut n = e.n;
        match e.op.as_str() {
            "begin" => {
                // the request being served: the next generated request with this id
                // (if the Debug rendering no longer shows a request id - id 0 - fall back to the next remaining request of that role)
                let k = if e.id == 0 { (q..reqs.len()).find(|&k| reqs[k].2 == e.role).or(if q < reqs.len() { Some(q) } else { None }) } else { (q..reqs.len()).find(|&k| reqs[k].1 == e.id) }
                    .ok_or_else(|| format!("handler invoked for request id {} which no remaining request carries", e.id))?;
                let (off, id, _) = reqs[k]; q = k + 1; own = u32::from(id); n = id as usize; loc.cursor = loc.cursor.max(off as u64); last_fill.clear();
            },
            "read" if e.ok && e.n > 0 => { got = loc.locate(&e.bytes, own, e.active).map_err(|x| format!("handler read: {x}"))?; if let Some(l) = got.last() { loc.cursor = l.1; } last_fill.clear(); },
            "fill" if e.ok => { got = loc.locate(&e.bytes, own, e.active).map_err(|x| format!("handler fill_buf: {x}"))?; last_fill = e.bytes.clone(); },
            "consume" => { let m = e.n.min(last_fill.len()); if m > 0 { let iv = loc.locate(&last_fill[..m], own, 0).unwrap_or_default(); let _ = iv; }
                // advance the cursor over the consumed bytes (they were located by the preceding fill)
                if m > 0 { if let Ok(iv) = loc.locate_any(&last_fill[..m], own) { if let Some(l) = iv.last() { loc.cursor = l.1; } } last_fill.drain(..m); } },
            _ => {},
        }
        hlog.push(json!({"op": e.op, "ok": e.ok, "n": n, "got": got, "err": e.err, "wr": e.wr}));
    }
    let mut lines = vec![json!({"e": "reset", "scen": scen_json}).to_string(), json!({"e": "go", "stop": false}).to_string()];
    lines.extend(events.iter().map(Value::to_string));
    lines.push(json!({"e": "end", "returned": r.returned, "outw": r.out.len(), "items": generic_items(&r.out), "hlog": hlog, "nreq": r.calls}).to_string());
    let summary = json!({"scenario": s, "B": b, "bytes": bytes.len(), "requests": reqs.len(), "events": events.len(), "returned": r.returned, "handler_calls": r.calls});
    Ok((lines, summary))
}

pub fn run_trace(prop: &str, seed: u64, scenarios: u64, b: usize, path: &std::path::Path, rep: &mut Report) {
    use std::io::Write;
    let f = std::fs::File::create(path).unwrap_or_else(|e| { eprintln!("cannot create {}: {e}", path.display()); std::process::exit(2) });
    let mut out = std::io::BufWriter::new(f);
    let prev_hook = std::panic::take_hook();
    std::panic::set_hook(Box::new(|_| {}));
    let mut total = 0u64;
    for s in 0..scenarios {
        match catch_unwind(AssertUnwindSafe(|| trace_connection(seed, s, b))) {
            Ok(Ok((lines, summary))) => { total += lines.len() as u64; for l in lines { writeln!(out, "{l}").ok(); } rep.count("connection", &s, true); rep.sample("connection", 2, || summary); },
            Ok(Err(what)) => rep.violation(prop, &format!("connection driver (B={b}, scenario {s}): {what}"), json!({"kind": "conn-random", "seed": seed, "scenario": s, "B": b})),
            Err(_) => rep.violation(prop, &format!("connection driver (B={b}, scenario {s}): harness panicked"), json!({"kind": "conn-random", "seed": seed, "scenario": s, "B": b})),
        }
    }
    std::panic::set_hook(prev_hook);
    out.flush().ok();
    rep.set("trace_events", json!(total));
    rep.set("trace_runs", json!(scenarios));
}
