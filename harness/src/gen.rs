//! Seeded generators of concrete FastCGI traffic for the impl -> spec drivers:
//! well-formed requests with realistic and boundary sizes, interleaved
//! management / unknown / foreign records, structured mutations and plain
//! random bytes.  The generators write bytes; the lexer (wire.rs) describes
//! them for the specification.

use rand::rngs::StdRng;
use rand::{Rng, SeedableRng};

pub fn rng(seed: u64) -> StdRng { StdRng::seed_from_u64(seed) }

pub fn header(ty: u8, id: u16, clen: usize, plen: usize) -> [u8; 8] {
    let c = (clen as u16).to_be_bytes();
    let i = id.to_be_bytes();
    [1, ty, i[0], i[1], c[0], c[1], plen as u8, 0]
}

pub fn record(out: &mut Vec<u8>, r: &mut StdRng, ty: u8, id: u16, body: &[u8], plen: usize) {
    assert!(body.len() <= 65535 && plen <= 255);
    let mut h = header(ty, id, body.len(), plen);
    h[7] = r.gen();
    out.extend(h);
    out.extend(body);
    for _ in 0..plen { out.push(r.gen()); }
}

pub fn push_len(out: &mut Vec<u8>, len: usize, long: bool) {
    if len < 128 && !long { out.push(len as u8); } else { let mut e = (len as u32).to_be_bytes(); e[0] |= 0x80; out.extend(e); }
}

pub fn nv(out: &mut Vec<u8>, name: &[u8], value: &[u8], long_n: bool, long_v: bool) {
    push_len(out, name.len(), long_n);
    push_len(out, value.len(), long_v);
    out.extend(name);
    out.extend(value);
}

const NAME_POOL: [&str; 12] = ["CONTENT_LENGTH", "content_length", "Request_Method", "HTTP_X_A", "http_x_a", "GATEWAY_INTERFACE",
    "SCRIPT_FILENAME", "HTTP_COOKIE", "", "Q", "http_accept_language", "HTTP_X_FORWARDED_PROTO"];

pub fn pick<T: Copy>(r: &mut StdRng, xs: &[T]) -> T { xs[r.gen_range(0..xs.len())] }

pub fn rand_bytes(r: &mut StdRng, n: usize) -> Vec<u8> { (0..n).map(|_| r.gen()).collect() }

pub fn rand_name(r: &mut StdRng, len_class: &[usize]) -> Vec<u8> {
    match r.gen_range(0..10) {
        0..=4 => pick(r, &NAME_POOL).as_bytes().to_vec(),
        5 => { let mut v = pick(r, &NAME_POOL).as_bytes().to_vec(); if !v.is_empty() { let i = r.gen_range(0..v.len()); v[i] = pick(r, &[0xff, 0xfe, 0xc3, 0x80]); } v },
        6 => match r.gen_range(0..4) {
            0 => "HTTP_X_\u{e9}T\u{c9}".as_bytes().to_vec(),
            1 => "\u{e9}\u{20ac}\u{e9}\u{20ac}x\u{1f600}_\u{c9}".as_bytes().to_vec(),
            2 => { let mut v = "caf\u{e9}_\u{20ac}".as_bytes().to_vec(); v.truncate(v.len() - 1); v },   // truncated sequence at the end
            _ => vec![b'a', 0xe2, 0x82, b'b', 0xc3, 0xf0, 0x9f, 0x98],                                  // invalid and truncated sequences inside
        },
        _ => { let n = pick(r, len_class); (0..n).map(|i| b"abcXYZ_-09"[(i * 7 + n) % 10]).collect() },
    }
}

pub struct ReqOpts {
    pub id: u16,
    pub role: u16,
    pub flags: u8,
    pub max_pair: usize,       // upper bound for name + value of one pair
    pub npairs: usize,
    pub interleave: bool,
    pub big: bool,             // allow 65535+ lengths
}

thread_local! {
    /// when set, some noise records carry content + padding of 65536 bytes and more
    pub static BIG_NOISE: std::cell::Cell<bool> = const { std::cell::Cell::new(false) };
    /// when set, noise records never are BeginRequest records (connection-level drivers need the request
    /// boundaries to be exactly the generated requests)
    pub static NO_BEGIN_NOISE: std::cell::Cell<bool> = const { std::cell::Cell::new(false) };
}

/// A management / unknown / foreign record that may appear anywhere.
pub fn noise_record(out: &mut Vec<u8>, r: &mut StdRng, own: u16) {
    let plen = pick(r, &[0usize, 0, 1, 7, 8, 255]);
    let mut kind = r.gen_range(0..9);
    if NO_BEGIN_NOISE.with(std::cell::Cell::get) && (kind == 2 || kind == 8) { kind = 0; }
    if BIG_NOISE.with(std::cell::Cell::get) && r.gen_bool(0.3) {
        // a skipped record whose content and padding lengths are both near their maxima
        let (clen, plen) = pick(r, &[(65535usize, 255usize), (65300, 236), (65535, 1), (65281, 255)]);
        let b = rand_bytes(r, clen);
        let (ty, id) = pick(r, &[(200u8, 0u16), (5, own.wrapping_add(3).max(1)), (8, own.wrapping_add(3).max(1)), (2, own.wrapping_add(2).max(1)), (6, own)]);
        record(out, r, ty, id, &b, plen);
        return;
    }
    match kind {
        0 => { // GetValues with known/unknown/repeated names, values, maybe a trailing partial pair
            let mut body = Vec::new();
            for _ in 0..r.gen_range(0..4) {
                let nm: &[u8] = pick(r, &[b"FCGI_MAX_CONNS" as &[u8], b"FCGI_MAX_REQS", b"FCGI_MPXS_CONNS", b"fcgi_max_conns", b"FCGI_\xff", b"", b"X"]);
                let val = { let n_ = pick(r, &[0usize, 0, 0, 1, 3]); rand_bytes(r, n_) };
                nv(&mut body, nm, &val, r.gen_bool(0.2), r.gen_bool(0.1));
            }
            match r.gen_range(0..10) {
                0..=2 => body.extend([14, 0, b'F', b'C']),
                // a trailing incomplete pair that reads like a record header (name length 1, value length 200 / 9):
                // must be ignored with the rest of the body, never framed as a record of its own
                3 => body.extend([1, 200, 0, 0, 0, 0, 0, 0]),
                4 => body.extend([1, 9, 0, 0, 0, 0, 0, 0]),
                _ => {},
            }
            record(out, r, 9, 0, &body, plen);
        },
        1 => { let ty = loop { let t: u8 = r.gen(); if t == 0 || t > 11 { break t; } }; let n = pick(r, &[0usize, 1, 8, 9, 300]); let b = rand_bytes(r, n); let id = pick(r, &[0u16, own, 77]); record(out, r, ty, id, &b, plen); },
        2 => { let mut b = vec![0, pick(r, &[1u8, 2, 3]), r.gen::<u8>() & 1, 0, 0, 0, 0, 0]; b[3] = r.gen(); record(out, r, 1, own.wrapping_add(1).max(1), &b, plen); },
        3 => { let b = { let n_ = pick(r, &[0usize, 5, 64]); rand_bytes(r, n_) }; let t_ = pick(r, &[5u8, 8]); record(out, r, t_, own.wrapping_add(3).max(1), &b, plen); },
        4 => { let b = { let n_ = pick(r, &[0usize, 2]); rand_bytes(r, n_) }; record(out, r, 2, own.wrapping_add(2).max(1), &b, plen); },
        5 => { let b = { let n_ = pick(r, &[0usize, 9, 33]); rand_bytes(r, n_) }; record(out, r, 4, own.wrapping_add(5).max(1), &b, plen); },
        6 => { let b = rand_bytes(r, 8); let t_ = pick(r, &[3u8, 6, 7, 10, 11]); let i_ = pick(r, &[0u16, own]); record(out, r, t_, i_, &b, plen); },
        7 => { let mut body = Vec::new(); nv(&mut body, b"FCGI_MAX_CONNS", b"", false, false); record(out, r, 9, own, &body, plen); },
        _ => { let mut b = vec![0x12, 0x34, 1, 0, 0, 0, 0, 0]; b[0] = pick(r, &[0u8, 0, 9]); b[1] = pick(r, &[0u8, 4, 200]); let i_ = pick(r, &[0u16, 91]); record(out, r, 1, i_, &b, plen); },
    }
}

/// BeginRequest + Params stream (cut into records at random offsets) + terminator.
/// Returns the longest pair body (name + value) it produced.
pub fn preamble(out: &mut Vec<u8>, r: &mut StdRng, o: &ReqOpts) -> usize {
    let mut body = [0u8; 8];
    body[..2].copy_from_slice(&o.role.to_be_bytes());
    body[2] = o.flags;
    for b in &mut body[3..] { *b = r.gen(); }
    let bpad = pick(r, &[0usize, 0, 0, 3, 8]);
    record(out, r, 1, o.id, &body, bpad);
    let mut stream = Vec::new();
    let mut longest = 0;
    let classes_small = [0usize, 1, 2, 3, 5, 11];
    let classes_mid = [0usize, 1, 5, 20, 126, 127, 128, 129, 255, 256, 1000];
    let classes_big = [127usize, 128, 4000, 65535, 65536, 70000];
    for _ in 0..o.npairs {
        let (mut name, mut val);
        loop {
            let cl: &[usize] = if o.max_pair <= 64 { &classes_small } else if o.big && r.gen_bool(0.15) { &classes_big } else { &classes_mid };
            name = rand_name(r, cl);
            let vn_ = pick(r, cl); val = rand_bytes(r, vn_);
            if name.len() + val.len() <= o.max_pair { break; }
            if name.len() > o.max_pair { continue; }
            val.truncate(o.max_pair - name.len());
            break;
        }
        longest = longest.max(name.len() + val.len());
        nv(&mut stream, &name, &val, r.gen_bool(0.2), r.gen_bool(0.2));
    }
    let mut at = 0;
    while at < stream.len() {
        if o.interleave && r.gen_bool(0.25) { noise_record(out, r, o.id); }
        let rem = stream.len() - at;
        let n = match r.gen_range(0..6) { 0 => 1, 1 => rem.min(r.gen_range(1..=9)), 2 => rem.min(65535), 3 => rem.min(r.gen_range(1..=400)), _ => rem.min(r.gen_range(1..=65535)) };
        let plen = pick(r, &[0usize, 0, 1, 7, 8, 200, 255]);
        record(out, r, 4, o.id, &stream[at..at + n], plen);
        at += n;
    }
    if o.interleave && r.gen_bool(0.25) { noise_record(out, r, o.id); }
    let endpad = pick(r, &[0usize, 0, 1, 8, 255]);
    record(out, r, 4, o.id, &[], endpad);
    longest
}

/// Records of one input stream (`ty` = 5 or 8) carrying `content`, with terminator if `end`.
pub fn stream_records(out: &mut Vec<u8>, r: &mut StdRng, ty: u8, id: u16, content: &[u8], end: bool, interleave: bool) {
    let mut at = 0;
    while at < content.len() {
        if interleave && r.gen_bool(0.2) { noise_record(out, r, id); }
        let rem = content.len() - at;
        let n = match r.gen_range(0..5) { 0 => 1, 1 => rem.min(r.gen_range(1..=9)), 2 => rem.min(65535), _ => rem.min(r.gen_range(1..=2000)) };
        let plen = pick(r, &[0usize, 0, 1, 7, 8, 255]);
        record(out, r, ty, id, &content[at..at + n], plen);
        at += n;
    }
    if interleave && r.gen_bool(0.2) { noise_record(out, r, id); }
    if end { let plen = pick(r, &[0usize, 0, 3, 8]); record(out, r, ty, id, &[], plen); }
}

/// Structured mutation of valid traffic: flips header bytes, truncates,
/// inflates announced lengths, changes types / versions / ids.
pub fn mutate(bytes: &mut Vec<u8>, r: &mut StdRng) {
    if bytes.is_empty() { return; }
    // header offsets
    let mut heads = Vec::new();
    let mut o = 0usize;
    while o + 8 <= bytes.len() {
        heads.push(o);
        o += 8 + usize::from(u16::from_be_bytes([bytes[o + 4], bytes[o + 5]])) + usize::from(bytes[o + 6]);
    }
    for _ in 0..r.gen_range(1..=3) {
        let h = pick(r, &heads);
        match r.gen_range(0..9) {
            0 => bytes[h] = pick(r, &[0u8, 2, 255]),
            1 => bytes[h + 1] = r.gen(),
            2 => { bytes[h + 2] = r.gen(); bytes[h + 3] = r.gen(); },
            3 => { bytes[h + 2] = 0; bytes[h + 3] = 0; },
            4 => { let d: u8 = pick(r, &[1, 2, 8, 255]); bytes[h + 5] = bytes[h + 5].wrapping_add(d); },
            5 => bytes[h + 6] = r.gen(),
            6 => { let n = r.gen_range(0..bytes.len()); bytes.truncate(n); if bytes.is_empty() { return; } heads.retain(|&x| x + 8 <= n); if heads.is_empty() { return; } },
            7 => { if h + 12 <= bytes.len() { bytes[h + 8] = 0xff; bytes[h + 9] = 0xff; bytes[h + 10] = 0xff; bytes[h + 11] = 0xff; } },
            _ => { let i = r.gen_range(0..bytes.len()); bytes[i] ^= 1 << r.gen_range(0..8); },
        }
    }
}
