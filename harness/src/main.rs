//! Conformance harness binding the TLA+ specifications in /verif/spec to the
//! fastcgi-server crate (see /verif/DESIGN.md).  Driven by /verif/check.

mod report;
mod tlcin;
mod vec_codec;
mod wire;
mod rp;
mod gen;
mod sp;
mod conn;
mod writer;
mod runner;

use std::collections::HashMap;
use std::path::PathBuf;

use report::Report;

pub struct Args {
    pub cmd: String,
    pub pos: Vec<String>,
    pub opt: HashMap<String, String>,
}

impl Args {
    fn parse() -> Self {
        let mut it = std::env::args().skip(1);
        let cmd = it.next().unwrap_or_default();
        let mut pos = Vec::new();
        let mut opt = HashMap::new();
        while let Some(a) = it.next() {
            if let Some(k) = a.strip_prefix("--") {
                let v = it.next().unwrap_or_default();
                opt.insert(k.to_string(), v);
            } else {
                pos.push(a);
            }
        }
        Self { cmd, pos, opt }
    }
    pub fn get(&self, k: &str) -> Option<&str> { self.opt.get(k).map(String::as_str) }
    pub fn num(&self, k: &str, d: u64) -> u64 { self.get(k).and_then(|s| s.parse().ok()).unwrap_or(d) }
    pub fn out(&self) -> Option<PathBuf> { self.get("out").map(PathBuf::from) }
    pub fn log(&self) -> Option<std::fs::File> {
        self.get("log").map(|p| std::fs::File::create(p).unwrap_or_else(|e| { eprintln!("cannot create {p}: {e}"); std::process::exit(2) }))
    }
}

fn main() {
    let args = Args::parse();
    let stdin = std::io::stdin();
    let code = match args.cmd.as_str() {
        "vectors" => {
            let prop = args.get("prop").unwrap_or("C15").to_string();
            let mut rep = Report::new(&prop);
            vec_codec::run_vectors(&prop, stdin.lock(), args.log(), &mut rep);
            rep.finish(args.out().as_deref())
        },
        "sweep-varint" => {
            let mut rep = Report::new("C15");
            vec_codec::sweep_varint(&mut rep, args.num("threads", 16) as u32, args.num("shift", 0) as u32);
            rep.finish(args.out().as_deref())
        },
        "cgi-vectors" => {
            let prop = args.get("prop").unwrap_or("C19").to_string();
            let mut rep = Report::new(&prop);
            vec_codec::run_cgi_vectors(&prop, stdin.lock(), args.log(), &mut rep);
            rep.finish(args.out().as_deref())
        },
        "dump-reasons" => { vec_codec::dump_reasons(&PathBuf::from(args.get("file").unwrap_or("/verif/out/reasons.ndjson"))); 0 },
        "dump-names" => { vec_codec::dump_names(&PathBuf::from(args.get("file").unwrap_or("/verif/out/names.ndjson")), args.num("limit", 40) as usize); 0 },
        "sweep-bufsize" => {
            let mut rep = Report::new("C06");
            vec_codec::sweep_bufsize(&mut rep, args.num("max", 70000) as usize);
            rep.finish(args.out().as_deref())
        },
        "rp-replay" => {
            let prop = args.get("prop").unwrap_or("C01").to_string();
            let mut rep = Report::new(&prop);
            rp::run_replay(&prop, args.num("seed", 1), stdin.lock(), args.log(), &mut rep, args.num("threads", 12) as usize);
            rep.finish(args.out().as_deref())
        },
        "sp-replay" => {
            let prop = args.get("prop").unwrap_or("C02").to_string();
            let mut rep = Report::new(&prop);
            sp::run_replay(&prop, args.num("seed", 1), stdin.lock(), args.log(), &mut rep, args.num("threads", 12) as usize);
            rep.finish(args.out().as_deref())
        },
        "conn-replay" => {
            let prop = args.get("prop").unwrap_or("C07").to_string();
            let mut rep = Report::new(&prop);
            let known: Vec<String> = args.get("known").map(|k| k.split(',').filter(|x| !x.is_empty()).map(str::to_string).collect()).unwrap_or_default();
            conn::run_replay(&prop, args.num("seed", 1), stdin.lock(), args.log(), &mut rep, args.num("threads", 12) as usize, &known);
            rep.finish(args.out().as_deref())
        },
        "writer-replay" => {
            let mut rep = Report::new("C10");
            writer::run_replay("C10", args.num("seed", 1), stdin.lock(), args.log(), &mut rep);
            rep.finish(args.out().as_deref())
        },
        "runner-replay" => {
            let prop = args.get("prop").unwrap_or("C13").to_string();
            let mut rep = Report::new(&prop);
            runner::run_replay(&prop, args.get("which").unwrap_or("runner"), stdin.lock(), args.log(), &mut rep);
            rep.finish(args.out().as_deref())
        },
        "runner-stress" => {
            let mut rep = Report::new("C13");
            runner::stress(&mut rep, args.num("seed", 1), args.num("rounds", 30));
            rep.finish(args.out().as_deref())
        },
        "conn-trace" => {
            let prop = args.get("prop").unwrap_or("C07").to_string();
            let mut rep = Report::new(&prop);
            let path = PathBuf::from(args.get("trace").unwrap_or("/verif/out/conn.trace.ndjson"));
            conn::run_trace(&prop, args.num("seed", 1), args.num("scenarios", 100), args.num("B", 8192) as usize, &path, &mut rep);
            rep.finish(args.out().as_deref())
        },
        "sp-trace" => {
            let prop = args.get("prop").unwrap_or("C02").to_string();
            let mut rep = Report::new(&prop);
            let path = PathBuf::from(args.get("trace").unwrap_or("/verif/out/sp.trace.ndjson"));
            sp::run_trace(&prop, args.num("seed", 1), args.num("scenarios", 100), &path, &mut rep);
            rep.finish(args.out().as_deref())
        },
        "rp-trace" => {
            let prop = args.get("prop").unwrap_or("C01").to_string();
            let mut rep = Report::new(&prop);
            let path = PathBuf::from(args.get("trace").unwrap_or("/verif/out/rp.trace.ndjson"));
            rp::run_trace(&prop, args.num("seed", 1), args.num("scenarios", 200), &path, &mut rep);
            rep.finish(args.out().as_deref())
        },
        "replay" => {
            let path = args.pos.first().cloned().unwrap_or_default();
            let doc: serde_json::Value = std::fs::read_to_string(&path).ok().and_then(|s| serde_json::from_str(&s).ok())
                .unwrap_or_else(|| { eprintln!("cannot read replay file {path}"); std::process::exit(2) });
            let prop = doc["property"].as_str().unwrap_or("?").to_string();
            let mut rep = Report::new(&prop);
            let r = &doc["replay"];
            match r["kind"].as_str().unwrap_or("") {
                "vector" => vec_codec::check_vector(&mut rep, &prop, &r["vector"]),
                "rp-edge" => rp::replay_file(&prop, r, &mut rep),
                "cgi-vector" => { let v = &r["vector"]; let mm = if v["t"] == "vn" { vec_codec::check_name_vector(v).0 } else { vec_codec::check_response_vector(v) };
                    for what in mm { rep.violation(&prop, &what, r.clone()); } },
                "rp-bytes" => rp::replay_bytes(&prop, r, &mut rep),
                "sp-edge" => sp::replay_file(&prop, r, &mut rep),
                "sp-bytes" => sp::replay_bytes(&prop, r, &mut rep),
                "conn-beh" => conn::replay_file(&prop, r, &mut rep),
                "writer-beh" => writer::replay_file(&prop, r, &mut rep),
                "runner-edge" | "waitgroup-edge" => runner::replay_file(&prop, r, &mut rep),
                "bufsize" => vec_codec::sweep_bufsize(&mut rep, r["n"].as_u64().unwrap_or(0) as usize),
                k => { eprintln!("replay kind {k} is not supported by this build"); std::process::exit(2) },
            }
            rep.finish(None)
        },
        other => {
            eprintln!("unknown subcommand {other:?}");
            2
        },
    };
    std::process::exit(code);
}
