//! Result collection shared by all harness subcommands.
//!
//! A subcommand counts what it evaluated, keeps a few written-out samples,
//! records violations (each with a replay file) and drifts, and finally writes
//! one JSON summary that `/verif/check` folds into the evidence file.

use std::collections::{BTreeMap, HashSet};
use std::hash::{Hash, Hasher};
use std::path::{Path, PathBuf};

use serde_json::{json, Value};

pub struct Report {
    pub prop: String,
    pub evaluations: u64,
    pub nontrivial: u64,
    pub kinds: BTreeMap<String, u64>,
    pub samples: Vec<Value>,
    sample_kinds: BTreeMap<String, u32>,
    distinct: HashSet<u64>,
    pub violations: Vec<Value>,
    pub drifts: Vec<String>,
    pub extra: BTreeMap<String, Value>,
    replay_dir: PathBuf,
    max_violations: usize,
}

impl Report {
    pub fn new(prop: &str) -> Self {
        let replay_dir = std::env::var("VERIF_REPLAY_DIR")
            .map(PathBuf::from)
            .unwrap_or_else(|_| PathBuf::from("/verif/out/replays"));
        Self {
            prop: prop.to_string(), evaluations: 0, nontrivial: 0, kinds: BTreeMap::new(),
            samples: Vec::new(), sample_kinds: BTreeMap::new(), distinct: HashSet::new(),
            violations: Vec::new(), drifts: Vec::new(), extra: BTreeMap::new(), replay_dir,
            max_violations: 5,
        }
    }

    /// Counts one evaluated case. `key` identifies the case for distinctness,
    /// `nontrivial` is the subcommand's stated rule applied to this case.
    pub fn count<K: Hash>(&mut self, kind: &str, key: &K, nontrivial: bool) -> bool {
        self.evaluations += 1;
        *self.kinds.entry(kind.to_string()).or_insert(0) += 1;
        let mut h = std::collections::hash_map::DefaultHasher::new();
        kind.hash(&mut h);
        key.hash(&mut h);
        let fresh = self.distinct.insert(h.finish());
        if fresh && nontrivial {
            self.nontrivial += 1;
        }
        fresh
    }

    /// Keeps up to `per_kind` written-out samples per kind.
    pub fn sample(&mut self, kind: &str, per_kind: u32, v: impl FnOnce() -> Value) {
        let n = self.sample_kinds.entry(kind.to_string()).or_insert(0);
        if *n < per_kind {
            *n += 1;
            self.samples.push(v());
        }
    }

    pub fn too_many_violations(&self) -> bool {
        self.violations.len() >= self.max_violations
    }

    /// Records a violation of `prop` and writes its replay file.
    pub fn violation(&mut self, prop: &str, what: &str, replay: Value) {
        if self.too_many_violations() {
            return;
        }
        let _ = std::fs::create_dir_all(&self.replay_dir);
        let mut h = std::collections::hash_map::DefaultHasher::new();
        replay.to_string().hash(&mut h);
        what.hash(&mut h);
        let path = self.replay_dir.join(format!("{}-{:016x}.json", prop, h.finish()));
        let doc = json!({"property": prop, "what": what, "replay": replay});
        let _ = std::fs::write(&path, serde_json::to_string_pretty(&doc).unwrap_or_default());
        println!("VIOLATION property={} replay={}", prop, path.display());
        println!("  what: {}", what);
        self.violations.push(json!({"property": prop, "what": what, "replay": path.display().to_string()}));
    }

    pub fn drift(&mut self, what: String) {
        if self.drifts.len() < 20 {
            println!("DRIFT: {what}");
        }
        self.drifts.push(what);
    }

    pub fn set(&mut self, key: &str, v: Value) {
        self.extra.insert(key.to_string(), v);
    }

    pub fn add(&mut self, key: &str, n: u64) {
        let cur = self.extra.get(key).and_then(Value::as_u64).unwrap_or(0);
        self.extra.insert(key.to_string(), json!(cur + n));
    }

    pub fn finish(self, out: Option<&Path>) -> i32 {
        let doc = json!({
            "prop": self.prop,
            "evaluations": self.evaluations,
            "distinct": self.distinct.len(),
            "distinct_nontrivial": self.nontrivial,
            "kinds": self.kinds,
            "samples": self.samples,
            "violations": self.violations,
            "drifts": self.drifts.len(),
            "drift_samples": self.drifts.iter().take(5).collect::<Vec<_>>(),
            "extra": self.extra,
        });
        if let Some(p) = out {
            if let Some(d) = p.parent() {
                let _ = std::fs::create_dir_all(d);
            }
            std::fs::write(p, serde_json::to_string_pretty(&doc).unwrap_or_default())
                .unwrap_or_else(|e| { eprintln!("cannot write {}: {e}", p.display()); std::process::exit(2) });
        }
        if self.violations.is_empty() { 0 } else { 1 }
    }
}
