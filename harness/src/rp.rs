//! Request parser (src/parser/request.rs): replay of MC_ReqParser edges on the
//! real parser (spec -> impl) and seeded drivers that record traces for
//! Trace_ReqParser (impl -> spec).

use std::collections::{BTreeSet, HashMap};
use std::io::BufRead;
use std::panic::{catch_unwind, AssertUnwindSafe};
use std::sync::{Arc, Mutex, RwLock};

use fastcgi_server::cgi::VarName;
use fastcgi_server::parser::{request, Error as PError, Request};
use fastcgi_server::protocol as fcgi;
use fastcgi_server::Config;
use serde::Deserialize;
use serde_json::{json, Value};

use crate::report::Report;
use crate::wire::{self, Wire};

// ---------------------------------------------------------------------------
// Replies (mirror of Codec!UnknownRecord / EndRecord / GetValuesResult; the
// operators themselves are bound to the code by the C17 vectors)

#[derive(Debug, Clone, Deserialize, PartialEq, Eq, serde::Serialize)]
pub struct Reply {
    pub k: String,
    pub a: u32,
    pub b: u32,
}

pub fn reply_bytes(r: &Reply, seed: u64, max_conns: usize, map: bool) -> Vec<u8> {
    let id = |x: u32| if map { wire::map_id(seed, x) } else { x as u16 };
    match r.k.as_str() {
        "unk" => {
            let mut v = vec![1, 11];
            v.extend(id(r.b).to_be_bytes());
            v.extend([0, 8, 0, 0, r.a as u8, 0, 0, 0, 0, 0, 0, 0]);
            v
        },
        "end" => {
            let mut v = vec![1, 3];
            v.extend(id(r.a).to_be_bytes());
            v.extend([0, 8, 0, 0, 0, 0, 0, 0, r.b as u8, 0, 0, 0]);
            v
        },
        "gvr" => {
            let mut body = Vec::new();
            for (bit, name) in wire::VAR_NAMES {
                if r.a & u32::from(bit) != 0 {
                    let val = if bit == 4 { "0".to_string() } else { max_conns.to_string() };
                    body.push(name.len() as u8);
                    body.push(val.len() as u8);
                    body.extend(name.as_bytes());
                    body.extend(val.as_bytes());
                }
            }
            let pad = (8 - body.len() % 8) % 8;
            let mut v = vec![1, 10, 0, 0];
            v.extend((body.len() as u16).to_be_bytes());
            v.extend([pad as u8, 0]);
            v.extend(&body);
            v.extend(std::iter::repeat(0).take(pad));
            v
        },
        o => panic!("unknown reply kind {o}"),
    }
}

pub fn replies_bytes(rs: &[Reply], seed: u64, max_conns: usize, map: bool) -> Vec<u8> {
    rs.iter().flat_map(|r| reply_bytes(r, seed, max_conns, map)).collect()
}

/// Decodes bytes the parser emitted toward the client back into reply descriptors.
pub fn decode_replies(mut b: &[u8]) -> Result<Vec<Reply>, String> {
    let mut out = Vec::new();
    while !b.is_empty() {
        if b.len() < 8 { return Err(format!("{} trailing bytes are not a record", b.len())); }
        let (ver, ty) = (b[0], b[1]);
        let id = u32::from(u16::from_be_bytes([b[2], b[3]]));
        let clen = usize::from(u16::from_be_bytes([b[4], b[5]]));
        let plen = usize::from(b[6]);
        if ver != 1 { return Err(format!("reply with version {ver}")); }
        if b.len() < 8 + clen + plen { return Err("truncated reply record".into()); }
        let body = &b[8..8 + clen];
        match ty {
            11 if clen == 8 && body[1..] == [0; 7] && plen == 0 => out.push(Reply { k: "unk".into(), a: body[0].into(), b: id }),
            3 if clen == 8 && body[..4] == [0; 4] && body[5..] == [0; 3] && plen == 0 => out.push(Reply { k: "end".into(), a: id, b: body[4].into() }),
            10 if id == 0 => {
                let mut mask = 0u32;
                let mut it = fcgi::nv::NVIter::new(body);
                let mut order_ok = true;
                let mut last = 0u32;
                for (n, _v) in &mut it {
                    match wire::VAR_NAMES.iter().find(|(_, nm)| nm.as_bytes() == n) {
                        Some((bit, _)) => { if u32::from(*bit) <= last { order_ok = false; } last = (*bit).into(); mask |= u32::from(*bit); },
                        None => return Err("GetValuesResult names an unknown variable".into()),
                    }
                }
                if !it.into_inner().is_empty() || !order_ok { return Err("malformed GetValuesResult body".into()); }
                if plen != (8 - clen % 8) % 8 || b[8 + clen..8 + clen + plen].iter().any(|&x| x != 0) { return Err("GetValuesResult padding".into()); }
                out.push(Reply { k: "gvr".into(), a: mask, b: 0 });
            },
            _ => return Err(format!("unexpected reply record type {ty} id {id} clen {clen} plen {plen}")),
        }
        b = &b[8 + clen + plen..];
    }
    Ok(out)
}

// ---------------------------------------------------------------------------
// Cases and observations

#[derive(Deserialize, Clone)]
#[allow(non_snake_case)]
pub struct CaseLine {
    pub c: u64,
    pub B: usize,
    #[serde(default)]
    pub tag: String,
    pub wire: Wire,
}

pub struct Case {
    pub id: u64,
    pub b: usize,
    pub tag: String,
    pub wire: Wire,
    pub seed: u64,
    pub bytes: Vec<u8>,
    pub streams: Vec<Vec<u8>>,
}

pub const MAX_CONNS: usize = 3;

impl Case {
    pub fn new(cl: CaseLine, seed: u64) -> Result<Self, String> {
        let s = seed.wrapping_mul(0x1000_0000_01b3).wrapping_add(cl.c);
        let enc = wire::encode(&cl.wire, s)?;
        // distinct keys of a session must normalise to distinct names
        for ps in &cl.wire.pairs {
            let mut seen: HashMap<String, u32> = HashMap::new();
            for (j, p) in ps.iter().enumerate() {
                let nm = String::from_utf8_lossy(&wire::name_bytes(p.key, p.n.min(64), j as u64 + s)).to_ascii_uppercase();
                if let Some(k) = seen.insert(nm, p.key) {
                    if k != p.key { return Err(format!("case {}: keys {k} and {} normalise to the same name", cl.c, p.key)); }
                }
            }
        }
        Ok(Self { id: cl.c, b: cl.B, tag: cl.tag, wire: cl.wire, seed: s, bytes: enc.bytes, streams: enc.streams })
    }
    pub fn config(&self) -> Config {
        let mut c = Config::with_conns(MAX_CONNS.try_into().expect("nonzero"));
        c.buffer_size = self.b;
        c
    }
}

#[derive(Deserialize, Debug, Clone)]
pub struct ReqObs { pub id: u32, pub role: u32, pub flags: u32 }

#[derive(Deserialize, Debug, Clone)]
pub struct Obs {
    pub done: bool,
    pub conv: String,
    pub err: String,
    pub arg: u32,
    pub req: ReqObs,
    pub env: Vec<(u32, u64)>,
    pub sess: usize,
    pub left: (u64, u64),
    pub out: Vec<Reply>,
    pub room: bool,
}

#[derive(Deserialize, Debug, Clone)]
pub struct Micro { pub free: usize, pub pos: u64, pub mode: String, pub nvbuf: u64 }

#[derive(Deserialize)]
pub struct EdgeLine { pub c: u64, pub h: Vec<usize>, pub obs: Obs, pub micro: Micro }

pub fn err_class(e: &PError) -> (String, u32) {
    match e {
        PError::UnknownVersion(v) => ("Version".into(), u32::from(*v)),
        PError::InvalidRequestLen(l) => ("ReqLen".into(), u32::from(*l)),
        PError::NullRequest => ("Null".into(), 0),
        PError::StuckOnInput => ("Stuck".into(), 0),
        PError::Interrupted => ("Interrupted".into(), 0),
        PError::AbortRequest => ("Abort".into(), 0),
        PError::Paniced => ("Paniced".into(), 0),
        other => (format!("Other({other})"), 0),
    }
}

/// One mismatch between the specification's prediction and the code.
pub struct Mismatch { pub field: &'static str, pub what: String }

/// Which property owns a compared field (DESIGN.md 5.3): only mismatches in
/// fields owned by the property under check raise its alarm.
pub fn owns(prop: &str, field: &str) -> bool {
    match field {
        "panic" => true,
        "done" | "conv" | "req" | "env" => matches!(prop, "C01" | "C03" | "C11"),
        "err" => matches!(prop, "C03" | "C06"),
        "out" => matches!(prop, "C04" | "C03" | "C11"),
        "left" => matches!(prop, "C05" | "C03"),
        "room" | "accept" => matches!(prop, "C06" | "C03"),
        _ => false,
    }
}

/// Checks a finished request against the expected environment.
pub fn check_env(case: &Case, req: &Request, obs: &Obs) -> Result<(), String> {
    if req.env_len() != obs.env.len() {
        return Err(format!("environment has {} entries, specification {}", req.env_len(), obs.env.len()));
    }
    let pairs = case.wire.pairs.get(obs.sess.wrapping_sub(1)).ok_or("session index")?;
    let stream = &case.streams[obs.sess - 1];
    let mut expect_names: BTreeSet<(String, Vec<u8>)> = BTreeSet::new();
    for &(key, idx) in &obs.env {
        let p = &pairs[idx as usize - 1];
        let val = &stream[p.value_at() as usize..(p.value_at() + p.v) as usize];
        let raw = &stream[p.name_at() as usize..(p.name_at() + p.n) as usize];
        let norm = String::from_utf8_lossy(raw).to_ascii_uppercase();
        for variant in 0..3u64 {
            let spelled = String::from_utf8_lossy(&wire::name_bytes(key, p.n, variant)).into_owned();
            let name = VarName::new(&spelled);
            match req.get_var(name) {
                Some(got) if got == val => {},
                got => return Err(format!("get_var({spelled:?}) = {got:?}, specification: value of pair {idx} = {val:?}")),
            }
            if !req.contains_var(name) { return Err(format!("contains_var({spelled:?}) is false")); }
        }
        expect_names.insert((norm, val.to_vec()));
    }
    let got: BTreeSet<(String, Vec<u8>)> = req.env_iter().map(|(n, v)| (n.as_ref().to_string(), v.to_vec())).collect();
    if got != expect_names {
        return Err(format!("environment iterates as {got:?}, specification {expect_names:?}"));
    }
    if req.get_var(VarName::new("NO_SUCH_VARIABLE_IN_ANY_MENU")).is_some() { return Err("lookup of an absent name succeeded".into()); }
    Ok(())
}

/// Replays one history of parse(n) calls on a fresh real parser and compares the
/// observation after the last call with the specification's.
pub fn replay_edge(case: &Case, h: &[usize], obs: &Obs, micro: &Micro) -> (Vec<Mismatch>, Vec<String>) {
    let mut mm = Vec::new();
    let mut drift = Vec::new();
    let config = case.config();
    let mut parser = request::Parser::new(&config);
    let mut fed = 0usize;
    let mut last_out: Vec<u8> = Vec::new();
    let mut last_done = false;
    for (i, &n) in h.iter().enumerate() {
        let buf = parser.input_buffer();
        if n > buf.len() {
            mm.push(Mismatch { field: "accept", what: format!("call {i}: parse({n}) is allowed by the specification but the parser offers only {} bytes of input space", buf.len()) });
            return (mm, drift);
        }
        buf[..n].copy_from_slice(&case.bytes[fed..fed + n]);
        fed += n;
        let y = parser.parse(n);
        last_out = y.output.to_vec();
        last_done = y.done;
    }
    if h.is_empty() { return (mm, drift); }
    if last_done != obs.done {
        mm.push(Mismatch { field: "done", what: format!("done = {last_done}, specification {}", obs.done) });
    }
    let want_out = replies_bytes(&obs.out, case.seed, MAX_CONNS, true);
    if last_out != want_out {
        mm.push(Mismatch { field: "out", what: format!("last call emitted {:?} ({:?}), specification {:?}", decode_replies(&last_out), last_out, obs.out) });
    }
    let room = !parser.input_buffer().is_empty();
    if !obs.done && room != obs.room {
        mm.push(Mismatch { field: "room", what: format!("unfinished parser offers input space: {room}, specification {}", obs.room) });
    }
    if parser.input_buffer().len() != micro.free {
        drift.push(format!("free input space {} vs modelled {}", parser.input_buffer().len(), micro.free));
    }
    match parser.clone().into_request() {
        Ok((req, left)) => {
            if obs.conv != "ok" {
                mm.push(Mismatch { field: "conv", what: format!("into_request succeeded, specification {} ({})", obs.conv, obs.err) });
            } else {
                let want_id = wire::map_id(case.seed, obs.req.id);
                if req.request_id.get() != want_id || u32::from(u16::from(req.role)) != obs.req.role || u32::from(req.flags.bits()) != obs.req.flags {
                    mm.push(Mismatch { field: "req", what: format!("request id/role/flags = {}/{:?}/{:#x}, specification {want_id}/{}/{:#x}", req.request_id, req.role, req.flags.bits(), obs.req.role, obs.req.flags) });
                }
                if let Err(e) = check_env(case, &req, obs) {
                    mm.push(Mismatch { field: "env", what: e });
                }
                let want_left = &case.bytes[obs.left.0 as usize..obs.left.1 as usize];
                if left != want_left {
                    mm.push(Mismatch { field: "left", what: format!("leftover input is {} bytes {:?}, specification: wire[{}..{}] = {:?}", left.len(), left, obs.left.0, obs.left.1, want_left) });
                }
            }
        },
        Err(PError::Interrupted) => {
            if obs.conv != "interrupted" {
                mm.push(Mismatch { field: "conv", what: format!("into_request reports Interrupted, specification {} ({})", obs.conv, obs.err) });
            }
        },
        Err(e) => {
            let (k, a) = err_class(&e);
            if obs.conv != "err" {
                mm.push(Mismatch { field: "conv", what: format!("into_request fails with {e}, specification {}", obs.conv) });
            } else if k != obs.err || a != obs.arg {
                mm.push(Mismatch { field: "err", what: format!("fatal error {k}({a}), specification {}({})", obs.err, obs.arg) });
            }
        },
    }
    // the conversion into a stream parser succeeds / fails alike
    let sp = parser.into_stream_parser();
    match (&sp, obs.conv.as_str()) {
        (Ok(_), "ok") | (Err(PError::Interrupted), "interrupted") => {},
        (Err(e), "err") if !matches!(e, PError::Interrupted) => {},
        (r, c) => mm.push(Mismatch { field: "conv", what: format!("into_stream_parser gives {:?}, specification {c}", r.as_ref().map(|_| "parser").map_err(|e| e.to_string())) }),
    }
    (mm, drift)
}

fn panic_msg(p: Box<dyn std::any::Any + Send>) -> String {
    p.downcast_ref::<String>().cloned().or_else(|| p.downcast_ref::<&str>().map(|s| s.to_string())).unwrap_or_else(|| "panic".into())
}

/// Reads MC_ReqParser output (case and edge lines) and replays every edge.
pub fn run_replay(prop: &str, seed: u64, input: impl BufRead, mut log: Option<std::fs::File>, rep: &mut Report, threads: usize) {
    use std::io::Write;
    let cases: Arc<RwLock<HashMap<u64, Arc<Case>>>> = Arc::new(RwLock::new(HashMap::new()));
    let results: Arc<Mutex<Vec<(u64, Vec<usize>, Vec<Mismatch>, Vec<String>, Value)>>> = Arc::new(Mutex::new(Vec::new()));
    let counts = Arc::new(Mutex::new((0u64, 0u64))); // edges, nontrivial
    let (tx, rx) = std::sync::mpsc::sync_channel::<Vec<String>>(threads * 4);
    let rx = Arc::new(Mutex::new(rx));
    let prev_hook = std::panic::take_hook();
    std::panic::set_hook(Box::new(|_| {}));
    std::thread::scope(|sc| {
        for _ in 0..threads {
            let rx = rx.clone(); let cases = cases.clone(); let results = results.clone(); let counts = counts.clone();
            sc.spawn(move || loop {
                let batch = match rx.lock().unwrap().recv() { Ok(b) => b, Err(_) => break };
                let mut n = 0u64; let mut nt = 0u64;
                for line in batch {
                    let inner: String = serde_json::from_str(&line).unwrap_or_else(|e| { eprintln!("malformed TLC line: {e}"); std::process::exit(2) });
                    let e: EdgeLine = serde_json::from_str(&inner).unwrap_or_else(|e| { eprintln!("malformed edge: {e}: {inner:.300}"); std::process::exit(2) });
                    let case = cases.read().unwrap().get(&e.c).cloned().unwrap_or_else(|| { eprintln!("edge for unknown case {}", e.c); std::process::exit(2) });
                    n += 1;
                    if e.h.iter().sum::<usize>() > 0 { nt += 1; }
                    let r = catch_unwind(AssertUnwindSafe(|| replay_edge(&case, &e.h, &e.obs, &e.micro)));
                    let (mm, drift) = match r {
                        Ok(x) => x,
                        Err(p) => (vec![Mismatch { field: "panic", what: format!("panic in code under test: {}", panic_msg(p)) }], vec![]),
                    };
                    if !mm.is_empty() || !drift.is_empty() {
                        // separate budgets: results with a mismatch this property owns must never be crowded out by
                        // mismatches other properties own or by drift-only results
                        let class = if mm.iter().any(|m| owns(prop, m.field)) { 0 } else if !mm.is_empty() { 1 } else { 2 };
                        let mut res = results.lock().unwrap();
                        let same = res.iter().filter(|x| (if x.2.iter().any(|m| owns(prop, m.field)) { 0 } else if !x.2.is_empty() { 1 } else { 2 }) == class).count();
                        if same < [200, 200, 50][class] {
                            res.push((e.c, e.h.clone(), mm, drift, serde_json::from_str(&inner).unwrap_or(Value::Null)));
                        }
                    }
                }
                let mut c = counts.lock().unwrap();
                c.0 += n; c.1 += nt;
            });
        }
        let mut batch = Vec::with_capacity(1000);
        let mut sample_edges: Vec<String> = Vec::new();
        for line in input.lines() {
            let line = line.unwrap_or_else(|e| { eprintln!("read error: {e}"); std::process::exit(2) });
            if line.starts_with("\"{\\\"t\\\":\\\"case\\\"") {
                let inner: String = serde_json::from_str(&line).unwrap_or_else(|e| { eprintln!("malformed case line: {e}"); std::process::exit(2) });
                let cl: CaseLine = serde_json::from_str(&inner).unwrap_or_else(|e| { eprintln!("malformed case: {e}: {inner:.300}"); std::process::exit(2) });
                let case = Case::new(cl, seed).unwrap_or_else(|e| { eprintln!("inconsistent case: {e}"); std::process::exit(2) });
                *rep.kinds.entry(format!("case:{}", case.tag)).or_insert(0) += 1;
                rep.sample(&format!("case:{}", case.tag), 1, || json!({"case": case.id, "tag": case.tag, "B": case.b, "wire_len": case.wire.len,
                    "records": case.wire.recs.iter().map(|r| json!([r.ty, r.id, r.clen, r.plen])).collect::<Vec<_>>(), "bytes_hex": hex(&case.bytes)}));
                cases.write().unwrap().insert(case.id, Arc::new(case));
            } else if line.starts_with("\"{") {
                if sample_edges.len() < 2 && line.len() > 200 { sample_edges.push(line.clone()); }
                batch.push(line);
                if batch.len() >= 1000 {
                    tx.send(std::mem::take(&mut batch)).ok();
                }
            } else if let Some(l) = log.as_mut() {
                let _ = writeln!(l, "{line}");
            }
        }
        if !batch.is_empty() { tx.send(batch).ok(); }
        drop(tx);
        for s in sample_edges {
            if let Ok(inner) = serde_json::from_str::<String>(&s) {
                if let Ok(v) = serde_json::from_str::<Value>(&inner) { rep.samples.push(v); }
            }
        }
    });
    std::panic::set_hook(prev_hook);
    let (edges, nt) = *counts.lock().unwrap();
    rep.evaluations += edges;
    rep.nontrivial += nt;
    *rep.kinds.entry("edge".into()).or_insert(0) += edges;
    rep.set("cases", json!(cases.read().unwrap().len()));
    let mut other: HashMap<String, u64> = HashMap::new();
    let results = std::mem::take(&mut *results.lock().unwrap());
    for (c, h, mm, drift, edge) in results {
        let case = cases.read().unwrap().get(&c).cloned().expect("case");
        for m in mm {
            if owns(prop, m.field) {
                rep.violation(prop, &format!("request parser, case {c} ({}), calls {h:?}: {}", case.tag, m.what),
                    json!({"kind": "rp-edge", "B": case.b, "seed": case.seed, "wire": case.wire, "bytes_hex": hex(&case.bytes), "hist": h, "edge": edge, "field": m.field}));
            } else {
                *other.entry(m.field.to_string()).or_insert(0) += 1;
            }
        }
        for d in drift { rep.drift(format!("request parser, case {c}, calls {h:?}: {d}")); }
    }
    for (f, n) in other {
        println!("NOTE: {n} edge(s) differ in field '{f}', which property {prop} does not own (see the owning property's check)");
        rep.add(&format!("foreign_mismatch_{f}"), n);
    }
}

pub fn hex(b: &[u8]) -> String { b.iter().map(|x| format!("{x:02x}")).collect() }
pub fn unhex(s: &str) -> Vec<u8> { (0..s.len() / 2).map(|i| u8::from_str_radix(&s[2 * i..2 * i + 2], 16).unwrap_or(0)).collect() }

/// Re-runs one recorded violation.
pub fn replay_file(prop: &str, r: &Value, rep: &mut Report) {
    let wire: Wire = serde_json::from_value(r["wire"].clone()).unwrap_or_else(|e| { eprintln!("replay wire: {e}"); std::process::exit(2) });
    let bytes = unhex(r["bytes_hex"].as_str().unwrap_or(""));
    let seed = r["seed"].as_u64().unwrap_or(0);
    let enc = wire::encode(&wire, seed).unwrap_or_else(|e| { eprintln!("replay encode: {e}"); std::process::exit(2) });
    let case = Case { id: 0, b: r["B"].as_u64().unwrap_or(24) as usize, tag: "replay".into(), wire, seed, bytes, streams: enc.streams };
    let e: EdgeLine = serde_json::from_value(r["edge"].clone()).unwrap_or_else(|e| { eprintln!("replay edge: {e}"); std::process::exit(2) });
    let res = catch_unwind(AssertUnwindSafe(|| replay_edge(&case, &e.h, &e.obs, &e.micro)));
    let mm = match res { Ok((mm, _)) => mm, Err(p) => vec![Mismatch { field: "panic", what: format!("panic in code under test: {}", panic_msg(p)) }] };
    rep.count("replay", &0u8, true);
    for m in mm {
        if owns(prop, m.field) {
            rep.violation(prop, &format!("request parser replay, calls {:?}: {}", e.h, m.what), r.clone());
        }
    }
}

// ---------------------------------------------------------------------------
// impl -> spec: seeded drivers recording traces for Trace_ReqParser

use crate::gen;
use rand::Rng;
use std::io::Write as _;

/// Params stream bytes of session k, as far as the wire carries them.
fn session_stream(w: &Wire, bytes: &[u8], k: usize, phases: &[u64]) -> Vec<u8> {
    let (owner, _, _) = wire::track_sessions(&w.recs, phases);
    let mut s = Vec::new();
    for (i, r) in w.recs.iter().enumerate() {
        if let Some((kk, _)) = owner[i] {
            if kk == k {
                let a = (r.off + 8) as usize;
                let b = ((r.off + 8 + r.clen) as usize).min(bytes.len());
                if a < b { s.extend(&bytes[a..b]); }
            }
        }
    }
    s
}

/// The observables of a finished request for the trace: per key of the
/// session the candidate pair indices whose value equals what the code returns.
pub fn env_event(w: &Wire, bytes: &[u8], req: &Request, pos: u64, phases: &[u64]) -> Result<(Value, usize), String> {
    let (_, _, begins) = wire::track_sessions(&w.recs, phases);
    let k = begins.iter().rposition(|&b| b < pos).ok_or("finished request without a session in the lexer's view")?;
    let pairs = &w.pairs[k];
    let stream = session_stream(w, bytes, k, phases);
    let mut keys: Vec<u32> = Vec::new();
    let mut out = Vec::new();
    for p in pairs {
        if p.end() > stream.len() as u64 || keys.contains(&p.key) { continue; }
        keys.push(p.key);
        let raw = &stream[p.name_at() as usize..(p.name_at() + p.n) as usize];
        let spelled = String::from_utf8_lossy(raw).into_owned();
        let variants = [spelled.clone(), spelled.to_ascii_uppercase(), spelled.to_ascii_lowercase()];
        let got = req.get_var(VarName::new(&variants[0])).map(<[u8]>::to_vec);
        for v in &variants[1..] {
            if req.get_var(VarName::new(v)).map(<[u8]>::to_vec) != got || req.contains_var(VarName::new(v)) != got.is_some() {
                return Err(format!("lookups of {spelled:?} under different ASCII case disagree"));
            }
        }
        if let Some(val) = got {
            let cands: Vec<usize> = pairs.iter().enumerate()
                .filter(|(_, q)| q.key == p.key && q.end() <= stream.len() as u64 && stream[q.value_at() as usize..(q.value_at() + q.v) as usize] == val[..])
                .map(|(j, _)| j + 1).collect();
            out.push(json!([p.key, cands]));
        }
    }
    Ok((Value::Array(out), req.env_len()))
}

pub struct TraceStats { pub scenarios: u64, pub runs: u64, pub events: u64 }

#[derive(Clone, Copy)]
enum Chunking { One, Random, Fill, Mixed }

/// Runs the real request parser over `bytes` under one chunking, appending events.
fn trace_one(out: &mut impl std::io::Write, bytes: &[u8], b: usize, ch: Chunking, r: &mut rand::rngs::StdRng, keys: &mut wire::KeyTable)
    -> Result<(u64, String), String> {
    let w = wire::lex(bytes, keys);
    writeln!(out, "{}", json!({"e": "reset", "B": b, "nd": MAX_CONNS.to_string().len(), "wire": w})).map_err(|e| e.to_string())?;
    let mut config = Config::with_conns(MAX_CONNS.try_into().expect("nz"));
    config.buffer_size = b;
    let mut parser = request::Parser::new(&config);
    if parser.input_buffer().len() != b { return Err(format!("effective buffer {} for configured {b}", parser.input_buffer().len())); }
    let mut fed = 0usize;
    let mut events = 0u64;
    let mut after_final = 0;
    let mut summary = String::new();
    loop {
        let free = parser.input_buffer().len();
        let rem = bytes.len() - fed;
        let cap = free.min(rem);
        let n = match ch {
            Chunking::One => cap.min(1),
            Chunking::Fill => cap,
            Chunking::Random => if cap == 0 { 0 } else { r.gen_range(1..=cap) },
            Chunking::Mixed => if cap == 0 { 0 } else { match r.gen_range(0..5) { 0 => 0, 1 => 1, 2 => cap, 3 => cap.min(r.gen_range(1..=17)), _ => r.gen_range(1..=cap) } },
        };
        parser.input_buffer()[..n].copy_from_slice(&bytes[fed..fed + n]);
        fed += n;
        let y = parser.parse(n);
        let done = y.done;
        let replies = decode_replies(y.output).map_err(|e| format!("parser output is not a sequence of reply records: {e}"))?;
        let free_after = parser.input_buffer().len();
        let mut ev = json!({"e": "parse", "n": n, "done": done, "out": replies, "room": free_after > 0, "free": free_after,
            "conv": "interrupted", "err": "", "arg": 0, "req": {"id": 0, "role": 0, "flags": 0}, "env": [], "envlen": 0, "left": [0, 0]});
        if done {
            match parser.clone().into_request() {
                Ok((req, left)) => {
                    let pos = fed - left.len();
                    if bytes[pos..fed] != left[..] { return Err(format!("leftover input differs from wire[{pos}..{fed}]")); }
                    let (env, envlen) = env_event(&w, bytes, &req, pos as u64, &[0])?;
                    ev["conv"] = json!("ok");
                    ev["req"] = json!({"id": req.request_id.get(), "role": u16::from(req.role), "flags": req.flags.bits()});
                    ev["env"] = env;
                    ev["envlen"] = json!(envlen);
                    ev["left"] = json!([pos, fed]);
                    summary = format!("ok:{}:{}:{}", req.request_id, envlen, pos);
                },
                Err(e) => {
                    let (k, a) = err_class(&e);
                    ev["conv"] = json!("err"); ev["err"] = json!(k); ev["arg"] = json!(a);
                    summary = format!("err:{k}:{a}");
                },
            }
        }
        writeln!(out, "{ev}").map_err(|e| e.to_string())?;
        events += 1;
        if done { after_final += 1; }
        if (done && after_final >= 3) || (fed == bytes.len() && (n == 0 || done || parser.input_buffer().is_empty())) {
            if !done && fed == bytes.len() { summary = "more".into(); }
            break;
        }
        if events > 400_000 { return Err("parser makes no progress (event budget exhausted)".into()); }
    }
    Ok((events, summary))
}

/// Generates scenarios, runs each under several chunkings, writes the ndjson trace.
pub fn run_trace(prop: &str, seed: u64, scenarios: u64, path: &std::path::Path, rep: &mut Report) {
    let f = std::fs::File::create(path).unwrap_or_else(|e| { eprintln!("cannot create {}: {e}", path.display()); std::process::exit(2) });
    let mut out = std::io::BufWriter::new(f);
    let mut total_events = 0u64;
    let mut runs = 0u64;
    let prev_hook = std::panic::take_hook();
    std::panic::set_hook(Box::new(|_| {}));
    for s in 0..scenarios {
        let mut r = gen::rng(seed.wrapping_mul(1_000_003).wrapping_add(s));
        let class = match prop { "C06" => 5, _ => s % 5 };
        let id: u16 = gen::pick(&mut r, &[1u16, 2, 255, 256, 0x7fff, 65535]);
        let mut bytes = Vec::new();
        let (b, kind): (usize, &str) = match class {
            0 | 5 => { // documented bound, small buffers: pair <= B - 13
                let b = gen::pick(&mut r, &[24usize, 32, 40, 64]);
                let o = gen::ReqOpts { id, role: gen::pick(&mut r, &[1u16, 2, 3]), flags: gen::pick(&mut r, &[0u8, 1, 0xf7]), max_pair: b - 13,
                    npairs: r.gen_range(0..8), interleave: class == 0 && r.gen_bool(0.3), big: false };
                gen::preamble(&mut bytes, &mut r, &o);
                if class == 5 { // one pair exactly at the bound, anywhere
                    bytes.clear();
                    let mut o2 = o; o2.npairs = r.gen_range(1..4);
                    gen::preamble(&mut bytes, &mut r, &o2);
                }
                (b, "bounded-small")
            },
            1 => { let b = gen::pick(&mut r, &[1024usize + 16, 8192, 8192, 4096]);
                let o = gen::ReqOpts { id, role: 1, flags: 1, max_pair: b - 13, npairs: r.gen_range(0..40), interleave: true, big: false };
                gen::preamble(&mut bytes, &mut r, &o);
                let tail = gen::rand_bytes(&mut r, 13); gen::stream_records(&mut bytes, &mut r, 5, id, &tail, true, false);
                (b, "realistic") },
            2 if s % 10 == 2 => { // hostile lengths on skipped records around and inside a small preamble
                let b = gen::pick(&mut r, &[24usize, 64, 8192]);
                gen::BIG_NOISE.with(|c| c.set(true));
                gen::noise_record(&mut bytes, &mut r, id);
                let o = gen::ReqOpts { id, role: 1, flags: 1, max_pair: (b - 13).min(40), npairs: r.gen_range(1..4), interleave: true, big: false };
                gen::preamble(&mut bytes, &mut r, &o);
                gen::BIG_NOISE.with(|c| c.set(false));
                (b, "hostile-lengths") },
            2 => { let b = 70000 + 13 + 3; let b = (b + 7) & !7;
                let o = gen::ReqOpts { id, role: 3, flags: 0, max_pair: 70000, npairs: r.gen_range(1..6), interleave: true, big: true };
                gen::preamble(&mut bytes, &mut r, &o);
                (b, "big") },
            3 => { let b = gen::pick(&mut r, &[24usize, 64, 8192]);
                let o = gen::ReqOpts { id, role: 1, flags: 1, max_pair: 40, npairs: r.gen_range(0..6), interleave: true, big: false };
                gen::preamble(&mut bytes, &mut r, &o);
                if r.gen_bool(0.5) { let o2 = gen::ReqOpts { id: id.wrapping_add(9).max(1), ..o }; gen::preamble(&mut bytes, &mut r, &o2); }
                gen::mutate(&mut bytes, &mut r);
                (b, "mutated") },
            _ => { let n = gen::pick(&mut r, &[0usize, 1, 7, 8, 9, 16, 40, 200]); bytes = gen::rand_bytes(&mut r, n);
                if r.gen_bool(0.5) && !bytes.is_empty() { bytes[0] = 1; if bytes.len() > 1 { bytes[1] = r.gen_range(0..13); } if bytes.len() > 5 { bytes[4] = 0; bytes[5] = r.gen_range(0..20); } }
                (gen::pick(&mut r, &[24usize, 32]), "random") },
        };
        let policies: &[Chunking] = if bytes.len() <= 1500 { &[Chunking::One, Chunking::Random, Chunking::Fill, Chunking::Mixed] } else { &[Chunking::Random, Chunking::Fill, Chunking::Mixed] };
        let mut outcomes: Vec<String> = Vec::new();
        for &ch in policies {
            let mut keys = wire::KeyTable::default();
            let res = catch_unwind(AssertUnwindSafe(|| {
                let mut buf: Vec<u8> = Vec::new();
                let r2 = trace_one(&mut buf, &bytes, b, ch, &mut r, &mut keys);
                (buf, r2)
            }));
            runs += 1;
            match res {
                Ok((buf, Ok((ev, summary)))) => { out.write_all(&buf).ok(); total_events += ev; outcomes.push(summary); },
                Ok((_, Err(what))) => { rep.violation(prop, &format!("request parser driver ({kind}, B={b}): {what}"), json!({"kind": "rp-bytes", "B": b, "bytes_hex": hex(&bytes), "seed": seed, "scenario": s})); },
                Err(p) => { rep.violation(prop, &format!("request parser driver ({kind}, B={b}): panic in code under test: {}", panic_msg(p)), json!({"kind": "rp-bytes", "B": b, "bytes_hex": hex(&bytes), "seed": seed, "scenario": s})); },
            }
        }
        if outcomes.windows(2).any(|x| x[0] != x[1]) {
            rep.violation(prop, &format!("request parser ({kind}, B={b}): outcome depends on the chunking: {outcomes:?}"), json!({"kind": "rp-bytes", "B": b, "bytes_hex": hex(&bytes), "seed": seed, "scenario": s}));
        }
        rep.count(kind, &bytes, bytes.len() > 16);
        rep.sample(kind, 1, || json!({"scenario": s, "class": kind, "B": b, "bytes": bytes.len(), "outcomes": outcomes, "head_hex": hex(&bytes[..bytes.len().min(48)])}));
    }
    std::panic::set_hook(prev_hook);
    out.flush().ok();
    rep.set("trace_events", json!(total_events));
    rep.set("trace_runs", json!(runs));
    rep.set("trace_path", json!(path.display().to_string()));
}

/// Re-runs a recorded byte-level scenario under all chunkings (no TLC involved):
/// panics, malformed output and chunking-dependent outcomes reproduce here.
pub fn replay_bytes(prop: &str, r: &Value, rep: &mut Report) {
    let bytes = unhex(r["bytes_hex"].as_str().unwrap_or(""));
    let b = r["B"].as_u64().unwrap_or(24) as usize;
    let mut rng = gen::rng(r["seed"].as_u64().unwrap_or(1));
    let mut outcomes = Vec::new();
    for ch in [Chunking::One, Chunking::Random, Chunking::Fill, Chunking::Mixed] {
        let mut keys = wire::KeyTable::default();
        let res = catch_unwind(AssertUnwindSafe(|| { let mut buf = Vec::new(); trace_one(&mut buf, &bytes, b, ch, &mut rng, &mut keys) }));
        match res {
            Ok(Ok((_, s))) => outcomes.push(s),
            Ok(Err(what)) => rep.violation(prop, &what, r.clone()),
            Err(p) => rep.violation(prop, &format!("panic in code under test: {}", panic_msg(p)), r.clone()),
        }
    }
    rep.count("replay", &0u8, true);
    if outcomes.windows(2).any(|x| x[0] != x[1]) {
        rep.violation(prop, &format!("outcome depends on the chunking: {outcomes:?}"), r.clone());
    }
}
