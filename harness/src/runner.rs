//! Runner / Token / shutdown (C13, C14): replay of MC_Runner histories and of
//! MC_WaitGroup interleavings on the real types, plus a multi-thread stress run.

use std::collections::HashMap;
use std::future::Future;
use std::io::BufRead;
use std::panic::{catch_unwind, AssertUnwindSafe};
use std::pin::Pin;
use std::sync::atomic::{AtomicUsize, Ordering};
use std::sync::{Arc, Mutex};
use std::task::{Context, Poll, Wake, Waker};

use fastcgi_server::async_io::{Runner, Token};
use fastcgi_server::Config;
use serde::Deserialize;
use serde_json::{json, Value};

use crate::report::Report;

struct CountWaker(AtomicUsize);
impl Wake for CountWaker {
    fn wake(self: Arc<Self>) { self.0.fetch_add(1, Ordering::SeqCst); }
    fn wake_by_ref(self: &Arc<Self>) { self.0.fetch_add(1, Ordering::SeqCst); }
}

#[derive(Deserialize)]
pub struct REdge { pub c: usize, pub h: Vec<Vec<Value>>, pub obs: RObs }
#[derive(Deserialize)]
pub struct RObs { pub count: usize, pub live: usize, pub wp: Vec<bool>, pub fst: Vec<String> }

type TokFut = Pin<Box<dyn Future<Output = Token> + Send>>;

/// Replays one history of get_token / poll / drop operations; returns mismatches.
pub fn replay_runner(e: &REdge) -> Vec<String> {
    let mut mm = Vec::new();
    let config = Config::with_conns(e.c.try_into().expect("nz"));
    // futures borrow their runner: leak the two runners of this (small) history
    let runner: &'static Runner = Box::leak(Box::new(config.async_runner()));
    let clone: &'static Runner = Box::leak(Box::new(runner.clone()));
    let nf = e.obs.fst.len();
    let mut futs: Vec<Option<TokFut>> = (0..nf).map(|_| None).collect();
    let mut tokens: Vec<Option<Token>> = (0..nf).map(|_| None).collect();
    let wakers: Vec<Arc<CountWaker>> = (0..nf).map(|_| Arc::new(CountWaker(AtomicUsize::new(0)))).collect();
    let mut seen: Vec<usize> = vec![0; nf]; // wake count at the last poll
    for (i, op) in e.h.iter().enumerate() {
        let f = op[1].as_u64().unwrap_or(1) as usize - 1;
        match op[0].as_str().unwrap_or("") {
            "new" => { let r = if f % 2 == 0 { runner } else { clone }; futs[f] = Some(Box::pin(r.get_token())); },
            "poll" => {
                let want = op[2].as_str().unwrap_or("");
                let w: Waker = wakers[f].clone().into();
                seen[f] = wakers[f].0.load(Ordering::SeqCst);
                let res = futs[f].as_mut().expect("future exists").as_mut().poll(&mut Context::from_waker(&w));
                match res {
                    Poll::Ready(t) => { tokens[f] = Some(t); futs[f] = None;
                        if want != "ready" { mm.push(format!("step {i}: request {} completed, specification: stays pending (a slot was not free)", f + 1)); return mm; } },
                    Poll::Pending => if want != "pending" { mm.push(format!("step {i}: request {} is pending although a slot is free, specification: completes immediately", f + 1)); return mm; },
                }
            },
            "dropf" => futs[f] = None,
            "dropt" => tokens[f] = None,
            o => { mm.push(format!("unknown op {o}")); return mm; },
        }
        let live = tokens.iter().filter(|t| t.is_some()).count();
        if live > e.c { mm.push(format!("step {i}: {live} live tokens exceed the limit {}", e.c)); }
    }
    let live = tokens.iter().filter(|t| t.is_some()).count();
    if live != e.obs.live { mm.push(format!("{live} live tokens, specification {}", e.obs.live)); }
    for f in 0..nf {
        if e.obs.fst[f] == "pending" {
            let woken = wakers[f].0.load(Ordering::SeqCst) > seen[f];
            if woken != e.obs.wp[f] {
                mm.push(format!("pending request {} woken since its last poll: {woken}, specification {} (free slots: {})", f + 1, e.obs.wp[f], e.obs.count));
            }
        }
    }
    mm
}

#[derive(Deserialize)]
pub struct WEdge { pub c: usize, pub h: Vec<String>, pub obs: WObs }
#[derive(Deserialize)]
pub struct WObs { pub fut: String, pub wake: bool, pub ntok: usize }

/// Replays one interleaving of token drops with the three steps of WaitGroupFuture::poll.
/// Drops that the behaviour places inside a poll are executed from the scheduling-point hook.
pub fn replay_waitgroup(e: &WEdge) -> Vec<String> {
    use fastcgi_server::async_io::verif;
    let mut mm = Vec::new();
    let config = Config::with_conns(8.try_into().expect("nz"));
    let runner = config.async_runner();
    let cw = Arc::new(CountWaker(AtomicUsize::new(0)));
    let w: Waker = cw.clone().into();
    let mut cx = Context::from_waker(&w);
    let tokens: Arc<Mutex<Vec<Token>>> = Arc::new(Mutex::new(Vec::new()));
    for _ in 0..e.c {
        let fut = runner.get_token();
        futures_util::pin_mut!(fut);
        match fut.poll(&mut cx) { Poll::Ready(t) => tokens.lock().unwrap().push(t), Poll::Pending => { mm.push("token not available".into()); return mm; } }
    }
    let mut runner = Some(runner);
    let mut fut = None;
    let mut done = false;
    let mut wakes_at_poll_start = 0usize;
    let mut i = 0;
    while i < e.h.len() {
        match e.h[i].as_str() {
            "dropt" => { tokens.lock().unwrap().pop(); i += 1; },
            "shutdown" => { fut = Some(Box::pin(runner.take().expect("runner").shutdown())); i += 1; },
            "up-ready" | "up" => {
                // collect the drops the behaviour places after the upgrade and after the registration
                let mut after_up = 0; let mut after_reg = 0; let mut j = i + 1; let mut stage = 0;
                let expect_ready = e.h[i] == "up-ready";
                if !expect_ready {
                    while j < e.h.len() {
                        match e.h[j].as_str() {
                            "dropt" => { if stage == 0 { after_up += 1 } else { after_reg += 1 } },
                            "reg" => stage = 1,
                            "droptemp" => { j += 1; break; },
                            _ => break,
                        }
                        j += 1;
                    }
                    // a history that ends in the middle of a poll is completed without further drops
                }
                let toks = tokens.clone();
                verif::set_hook(Some(Box::new(move |point: &str| {
                    let n = if point == "wg.upgraded" { after_up } else if point == "wg.registered" { after_reg } else { 0 };
                    for _ in 0..n { toks.lock().unwrap().pop(); }
                })));
                wakes_at_poll_start = cw.0.load(Ordering::SeqCst);
                let r = fut.as_mut().expect("shutdown future").as_mut().poll(&mut cx);
                verif::set_hook(None);
                match r {
                    Poll::Ready(()) => { done = true; if !expect_ready { mm.push(format!("step {i}: shutdown future completed with {} tokens alive, specification: pending", tokens.lock().unwrap().len())); return mm; } },
                    Poll::Pending => if expect_ready { mm.push(format!("step {i}: shutdown future pending although every token was dropped")); return mm; },
                }
                i = if expect_ready { i + 1 } else { j };
            },
            o => { mm.push(format!("unexpected step {o}")); return mm; },
        }
    }
    // only compare when the history ended outside a poll
    let ended_mid_poll = e.h.iter().rev().find(|s| matches!(s.as_str(), "up" | "reg" | "droptemp")).is_some_and(|s| s != "droptemp");
    if !ended_mid_poll {
        if done != (e.obs.fut == "done") { mm.push(format!("shutdown future done: {done}, specification {}", e.obs.fut)); }
        if !done && fut.is_some() {
            let woken = cw.0.load(Ordering::SeqCst) > wakes_at_poll_start;
            if woken != e.obs.wake { mm.push(format!("shutdown future's task woken since its last poll: {woken}, specification {} ({} tokens alive)", e.obs.wake, e.obs.ntok)); }
        }
        if done && !tokens.lock().unwrap().is_empty() { mm.push("shutdown future completed before the last token was dropped".into()); }
    }
    mm
}

#[derive(Deserialize)]
pub struct SEdge { pub c: usize, pub h: Vec<Vec<Value>>, pub obs: SObs }
#[derive(Deserialize)]
pub struct SObs { pub live: usize, pub fst: Vec<String>, pub stopped: Vec<bool>, pub sfut: Vec<String>, pub swake: Vec<bool>, pub sreg: Vec<bool> }

/// A transport on which nothing ever arrives and everything can be written.
struct IdleIo { reads: Arc<AtomicUsize> }
impl futures_util::io::AsyncRead for IdleIo {
    fn poll_read(self: Pin<&mut Self>, _: &mut Context<'_>, _: &mut [u8]) -> Poll<std::io::Result<usize>> { self.reads.fetch_add(1, Ordering::SeqCst); Poll::Pending }
}
impl futures_util::io::AsyncWrite for IdleIo {
    fn poll_write(self: Pin<&mut Self>, _: &mut Context<'_>, b: &[u8]) -> Poll<std::io::Result<usize>> { Poll::Ready(Ok(b.len())) }
    fn poll_flush(self: Pin<&mut Self>, _: &mut Context<'_>) -> Poll<std::io::Result<()>> { Poll::Ready(Ok(())) }
    fn poll_close(self: Pin<&mut Self>, _: &mut Context<'_>) -> Poll<std::io::Result<()>> { Poll::Ready(Ok(())) }
}
fn constrain_idle<F>(f: F) -> F
where F: for<'a, 'b> FnMut(&'a mut fastcgi_server::async_io::Request<'b, IdleIo, IdleIo>) -> futures_util::future::BoxFuture<'a, std::io::Result<fastcgi_server::ExitStatus>> { f }

/// Does this token see its runner's stop request?  The token is given an idle connection: a stopped token
/// returns from `Token::run` at its first poll without touching the transport, any other parks on the read.
fn token_sees_stop(t: Token) -> Result<bool, String> {
    let reads = Arc::new(AtomicUsize::new(0));
    let calls = Arc::new(AtomicUsize::new(0));
    let c2 = calls.clone();
    let handler = constrain_idle(move |_req| { c2.fetch_add(1, Ordering::SeqCst); Box::pin(async { Ok(fastcgi_server::ExitStatus::SUCCESS) }) });
    let mut fut = Box::pin(t.run(IdleIo { reads: reads.clone() }, IdleIo { reads: reads.clone() }, handler));
    let cw = Arc::new(CountWaker(AtomicUsize::new(0)));
    let w: Waker = cw.into();
    let r = fut.as_mut().poll(&mut Context::from_waker(&w));
    if calls.load(Ordering::SeqCst) > 0 { return Err("handler invoked on an idle connection".into()); }
    match r {
        Poll::Ready(()) => { if reads.load(Ordering::SeqCst) > 0 { Err("a stopped idle connection read from the transport before returning".into()) } else { Ok(true) } },
        Poll::Pending => Ok(false),
    }
}

/// Replays one history of MC_Server (runner + clone, shared limit, separate shutdown) on the real types.
pub fn replay_server(e: &SEdge) -> Vec<String> {
    let mut mm = Vec::new();
    let config = Config::with_conns(e.c.try_into().expect("nz"));
    let first = config.async_runner();
    let second = first.clone();
    // get_token futures borrow their runner and shutdown() consumes it: the specification only shuts a runner down when
    // none of its request futures is outstanding (what the borrow checker enforces), so raw pointers are sound here
    let ptrs: [*mut Runner; 2] = [Box::into_raw(Box::new(first)), Box::into_raw(Box::new(second))];
    let mut alive = [true, true];
    type TokFutL = Pin<Box<dyn Future<Output = Token>>>;
    let nf = e.obs.fst.len();
    let mut futs: Vec<Option<TokFutL>> = (0..nf).map(|_| None).collect();
    let mut tokens: Vec<Option<Token>> = (0..nf).map(|_| None).collect();
    let wakers: Vec<Arc<CountWaker>> = (0..nf).map(|_| Arc::new(CountWaker(AtomicUsize::new(0)))).collect();
    let swakers: Vec<Arc<CountWaker>> = (0..2).map(|_| Arc::new(CountWaker(AtomicUsize::new(0)))).collect();
    let mut sseen = [0usize; 2];
    let mut sfuts: Vec<Option<Pin<Box<dyn Future<Output = ()>>>>> = vec![None, None];
    let mut sdone = [false, false];
    for (i, op) in e.h.iter().enumerate() {
        let x = op[1].as_u64().unwrap_or(1) as usize - 1;
        match op[0].as_str().unwrap_or("") {
            "new" => { let r: &'static Runner = unsafe { &*ptrs[x % 2] }; futs[x] = Some(Box::pin(r.get_token())); },
            "poll" => {
                let want = op[2].as_str().unwrap_or("");
                let w: Waker = wakers[x].clone().into();
                let res = futs[x].as_mut().expect("future exists").as_mut().poll(&mut Context::from_waker(&w));
                match res {
                    Poll::Ready(t) => { tokens[x] = Some(t); futs[x] = None;
                        if want != "ready" { mm.push(format!("step {i}: request {} completed, specification: stays pending", x + 1)); break; } },
                    Poll::Pending => if want != "pending" { mm.push(format!("step {i}: request {} is pending although a slot is free", x + 1)); break; },
                }
            },
            "dropf" => futs[x] = None,
            "dropt" => tokens[x] = None,
            "shutdown" => {
                if futs.iter().enumerate().any(|(f, fu)| f % 2 == x && fu.is_some()) { mm.push(format!("step {i}: specification shuts runner {} down while one of its request futures is outstanding", x + 1)); break; }
                let r = unsafe { *Box::from_raw(ptrs[x]) };
                alive[x] = false;
                sfuts[x] = Some(Box::pin(r.shutdown()));
            },
            "polls" => {
                let want = op[2].as_str().unwrap_or("");
                let w: Waker = swakers[x].clone().into();
                sseen[x] = swakers[x].0.load(Ordering::SeqCst);
                match sfuts[x].as_mut().expect("shutdown future").as_mut().poll(&mut Context::from_waker(&w)) {
                    Poll::Ready(()) => { sdone[x] = true; sfuts[x] = None;
                        if want != "ready" { mm.push(format!("step {i}: shutdown future of runner {} completed while {} of its tokens are alive (all live tokens: {})", x + 1, tokens.iter().enumerate().filter(|(f, t)| f % 2 == x && t.is_some()).count(), tokens.iter().filter(|t| t.is_some()).count())); break; } },
                    Poll::Pending => if want != "pending" { mm.push(format!("step {i}: shutdown future of runner {} is pending although none of its tokens is alive (tokens of the other runner: {})", x + 1, tokens.iter().enumerate().filter(|(f, t)| f % 2 != x && t.is_some()).count())); break; },
                }
            },
            o => { mm.push(format!("unknown op {o}")); break; },
        }
        let live = tokens.iter().filter(|t| t.is_some()).count();
        if live > e.c { mm.push(format!("step {i}: {live} live tokens exceed the shared limit {}", e.c)); }
    }
    if mm.is_empty() {
        let live = tokens.iter().filter(|t| t.is_some()).count();
        if live != e.obs.live { mm.push(format!("{live} live tokens, specification {}", e.obs.live)); }
        for r in 0..2 {
            if e.obs.sfut[r] == "pending" && sfuts[r].is_some() && (e.obs.sreg[r] || e.obs.swake[r]) {
                let woken = swakers[r].0.load(Ordering::SeqCst) > sseen[r];
                if woken != e.obs.swake[r] { mm.push(format!("shutdown future of runner {} woken since its last poll: {woken}, specification {}", r + 1, e.obs.swake[r])); }
            }
        }
        // final observation (destructive): which live tokens see a stop request
        for f in 0..nf {
            if let Some(t) = tokens[f].take() {
                match token_sees_stop(t) {
                    Ok(s) => if s != e.obs.stopped[f] { mm.push(format!("token {} (runner {}) sees a stop request: {s}, specification {}", f + 1, f % 2 + 1, e.obs.stopped[f])); },
                    Err(what) => mm.push(format!("token {}: {what}", f + 1)),
                }
            }
        }
    }
    futs.clear();
    for r in 0..2 { if alive[r] { drop(unsafe { Box::from_raw(ptrs[r]) }); } }
    mm
}

pub fn run_replay(prop: &str, which: &str, input: impl BufRead, mut log: Option<std::fs::File>, rep: &mut Report) {
    use std::io::Write;
    let prev_hook = std::panic::take_hook();
    std::panic::set_hook(Box::new(|_| {}));
    for line in input.lines() {
        let line = line.unwrap_or_else(|e| { eprintln!("read error: {e}"); std::process::exit(2) });
        if !line.starts_with("\"{") { if let Some(l) = log.as_mut() { let _ = writeln!(l, "{line}"); } continue; }
        let inner: String = serde_json::from_str(&line).unwrap_or_else(|e| { eprintln!("malformed TLC line: {e}"); std::process::exit(2) });
        if inner.starts_with("{\"t\":\"case\"") { continue; }
        let v: Value = serde_json::from_str(&inner).unwrap_or(Value::Null);
        let (mm, nontrivial) = if which == "server" {
            let e: SEdge = serde_json::from_str(&inner).unwrap_or_else(|e| { eprintln!("malformed edge: {e}: {inner:.300}"); std::process::exit(2) });
            let nt = e.h.iter().any(|o| o[0] == "shutdown");
            (catch_unwind(AssertUnwindSafe(|| replay_server(&e))).unwrap_or_else(|_| vec!["panic in code under test".into()]), nt)
        } else if which == "runner" {
            let e: REdge = serde_json::from_str(&inner).unwrap_or_else(|e| { eprintln!("malformed edge: {e}: {inner:.300}"); std::process::exit(2) });
            let nt = e.h.iter().any(|o| o[0] == "dropt" || o[0] == "dropf");
            (catch_unwind(AssertUnwindSafe(|| replay_runner(&e))).unwrap_or_else(|_| vec!["panic in code under test".into()]), nt)
        } else {
            let e: WEdge = serde_json::from_str(&inner).unwrap_or_else(|e| { eprintln!("malformed edge: {e}: {inner:.300}"); std::process::exit(2) });
            let nt = e.h.iter().any(|o| o == "up");
            (catch_unwind(AssertUnwindSafe(|| replay_waitgroup(&e))).unwrap_or_else(|_| vec!["panic in code under test".into()]), nt)
        };
        rep.count(which, &inner, nontrivial);
        if nontrivial { rep.sample(which, 3, || v.clone()); }
        if rep.too_many_violations() { continue; }
        for what in mm {
            rep.violation(prop, &format!("{which} history {}: {what}", v["h"]), json!({"kind": format!("{which}-edge"), "edge": v}));
        }
    }
    std::panic::set_hook(prev_hook);
}

pub fn replay_file(prop: &str, r: &Value, rep: &mut Report) {
    let which = if r["kind"] == "runner-edge" { "runner" } else if r["kind"] == "server-edge" { "server" } else { "waitgroup" };
    let mm = if which == "server" {
        let e: SEdge = serde_json::from_value(r["edge"].clone()).unwrap_or_else(|e| { eprintln!("replay: {e}"); std::process::exit(2) });
        replay_server(&e)
    } else if which == "runner" {
        let e: REdge = serde_json::from_value(r["edge"].clone()).unwrap_or_else(|e| { eprintln!("replay: {e}"); std::process::exit(2) });
        replay_runner(&e)
    } else {
        let e: WEdge = serde_json::from_value(r["edge"].clone()).unwrap_or_else(|e| { eprintln!("replay: {e}"); std::process::exit(2) });
        replay_waitgroup(&e)
    };
    rep.count("replay", &0u8, true);
    for what in mm { rep.violation(prop, &what, r.clone()); }
}

/// Multi-thread stress: threads acquire and release tokens of one runner and its clones; the number of
/// live tokens is counted independently and must never exceed the limit, and every thread must finish
/// (a stranded slot would leave a waiter parked forever).
pub fn stress(rep: &mut Report, seed: u64, rounds: u64) {
    use std::thread;
    for round in 0..rounds {
        let limit = 1 + (round % 3) as usize;
        let nthreads = 4 + (round % 5) as usize;
        let config = Config::with_conns(limit.try_into().expect("nz"));
        let runner = Arc::new(config.async_runner());
        let live = Arc::new(AtomicUsize::new(0));
        let max_seen = Arc::new(AtomicUsize::new(0));
        let finished = Arc::new(AtomicUsize::new(0));
        let mut hs = Vec::new();
        for t in 0..nthreads {
            let (runner, live, max_seen, finished) = (runner.clone(), live.clone(), max_seen.clone(), finished.clone());
            let own = if t % 2 == 0 { None } else { Some((*runner).clone()) };
            hs.push(thread::spawn(move || {
                let r: &Runner = own.as_ref().unwrap_or(&runner);
                let mut x = seed ^ (round << 8) ^ t as u64;
                for it in 0..40u64 {
                    x = x.wrapping_mul(6364136223846793005).wrapping_add(1442695040888963407);
                    let fut = r.get_token();
                    futures_util::pin_mut!(fut);
                    // cancel some requests after the first poll
                    let cancel = (x >> 33) % 5 == 0;
                    let th = thread::current();
                    struct TW(thread::Thread);
                    impl Wake for TW { fn wake(self: Arc<Self>) { self.0.unpark(); } fn wake_by_ref(self: &Arc<Self>) { self.0.unpark(); } }
                    let w: Waker = Arc::new(TW(th)).into();
                    let mut cx = Context::from_waker(&w);
                    let mut polls = 0;
                    let tok = loop {
                        match fut.as_mut().poll(&mut cx) {
                            Poll::Ready(t) => break Some(t),
                            Poll::Pending => { polls += 1; if cancel && polls == 1 { break None; } thread::park_timeout(std::time::Duration::from_millis(200)); },
                        }
                        if polls > 200 { return Err(format!("thread {t} iteration {it}: request never completed (stranded slot?)")); }
                    };
                    if let Some(tok) = tok {
                        let n = live.fetch_add(1, Ordering::SeqCst) + 1;
                        max_seen.fetch_max(n, Ordering::SeqCst);
                        if (x >> 20) % 3 == 0 { thread::yield_now(); }
                        live.fetch_sub(1, Ordering::SeqCst);
                        drop(tok);
                    }
                }
                finished.fetch_add(1, Ordering::SeqCst);
                Ok(())
            }));
        }
        for h in hs {
            match h.join() {
                Ok(Ok(())) => {},
                Ok(Err(what)) => rep.violation("C13", &what, json!({"kind": "runner-stress", "seed": seed, "round": round})),
                Err(_) => rep.violation("C13", "stress thread panicked", json!({"kind": "runner-stress", "seed": seed, "round": round})),
            }
        }
        let m = max_seen.load(Ordering::SeqCst);
        if m > limit { rep.violation("C13", &format!("{m} tokens alive at once with limit {limit}"), json!({"kind": "runner-stress", "seed": seed, "round": round})); }
        rep.count("stress-round", &round, true);
        rep.sample("stress-round", 1, || json!({"round": round, "limit": limit, "threads": nthreads, "max_live_seen": m, "finished": finished.load(Ordering::SeqCst)}));
    }
    let _ = HashMap::<u8, u8>::new();
}
