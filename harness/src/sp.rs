//! Stream parser (src/parser/stream.rs): replay of MC_StreamParser edges on the
//! real parser and seeded drivers recording traces for Trace_StreamParser.

use std::collections::HashMap;
use std::io::BufRead;
use std::panic::{catch_unwind, AssertUnwindSafe};
use std::sync::{Arc, Mutex, RwLock};

use fastcgi_server::parser::{request, stream, Error as PError};
use fastcgi_server::protocol as fcgi;
use fastcgi_server::Config;
use serde::Deserialize;
use serde_json::{json, Value};

use crate::report::Report;
use crate::rp::{self, err_class, hex, replies_bytes, Mismatch, Reply, MAX_CONNS};
use crate::wire::{self, Wire};

#[derive(Deserialize, Clone)]
#[allow(non_snake_case)]
pub struct CaseLine {
    pub c: u64,
    pub B: usize,
    #[serde(default)]
    pub tag: String,
    pub la: usize,
    pub wire: Wire,
}

pub struct Case {
    pub id: u64,
    pub b: usize,
    pub tag: String,
    pub la: usize,
    pub wire: Wire,
    pub seed: u64,
    pub bytes: Vec<u8>,
    /// offset at which the stream parser starts (end of the preamble)
    pub pre: usize,
}

impl Case {
    pub fn new(cl: CaseLine, seed: u64) -> Result<Self, String> {
        let s = seed.wrapping_mul(0x1000_0000_01b3).wrapping_add(cl.c);
        let enc = wire::encode(&cl.wire, s)?;
        let pre = cl.wire.recs.get(2).map_or(cl.wire.len, |r| r.off) as usize;
        Ok(Self { id: cl.c, b: cl.B, tag: cl.tag, la: cl.la, wire: cl.wire, seed: s, bytes: enc.bytes, pre })
    }
}

pub fn config(b: usize) -> Config {
    let mut c = Config::with_conns(MAX_CONNS.try_into().expect("nonzero"));
    c.buffer_size = b;
    c
}

/// Builds a real stream parser for a case whose wire starts with BeginRequest +
/// empty Params: the request parser is fed the preamble and `la` look-ahead bytes.
pub fn make_stream_parser<'a>(config: &'a Config, bytes: &[u8], pre: usize, la: usize) -> Result<stream::Parser<'a>, String> {
    let mut rp = request::Parser::new(config);
    let mut fed = 0usize;
    let plan = [16usize.min(pre), pre + la - 16usize.min(pre)];
    for n in plan {
        let buf = rp.input_buffer();
        if n > buf.len() { return Err(format!("request parser offers {} bytes, preamble feed needs {n}", buf.len())); }
        buf[..n].copy_from_slice(&bytes[fed..fed + n]);
        fed += n;
        let y = rp.parse(n);
        if !y.output.is_empty() { return Err("preamble produced output".into()); }
    }
    rp.into_stream_parser().map_err(|e| format!("preamble did not yield a request: {e}"))
}

#[derive(Deserialize, Debug, Clone, Default)]
pub struct Last {
    pub k: String,
    #[serde(default)] pub stream: usize,
    #[serde(default)] pub end: bool,
    #[serde(default)] pub output: usize,
    #[serde(default)] pub err: String,
    #[serde(default)] pub arg: u32,
    #[serde(default)] pub got: Vec<(u64, u64)>,
    #[serde(default)] pub ok: bool,
}

#[derive(Deserialize, Debug, Clone)]
pub struct Obs {
    pub last: Last,
    pub stream: u8,
    pub sbuf: Vec<(u64, u64)>,
    pub olen: usize,
    pub oq: Vec<Reply>,
    pub ostart: usize,
    pub boundary: bool,
    pub conv: String,
    pub left: (u64, u64),
}

#[derive(Deserialize, Debug, Clone)]
pub struct Micro { pub free: usize, pub ps: usize, pub gs: usize, pub rs: usize, pub fs: usize, pub mode: String }

#[derive(Deserialize)]
pub struct EdgeLine { pub c: u64, pub h: Vec<Value>, pub obs: Obs, pub micro: Micro }

pub fn ivs_bytes(bytes: &[u8], ivs: &[(u64, u64)]) -> Vec<u8> {
    ivs.iter().flat_map(|&(a, b)| bytes[a as usize..b as usize].iter().copied()).collect()
}

pub fn stream_of(s: u8) -> Option<fcgi::RecordType> {
    match s { 5 => Some(fcgi::RecordType::Stdin), 8 => Some(fcgi::RecordType::Data), _ => None }
}
pub fn stream_code(s: Option<fcgi::RecordType>) -> u8 { s.map_or(0, u8::from) }

pub fn owns(prop: &str, field: &str) -> bool {
    match field {
        "panic" => true,
        "got" | "sbuf" | "count" | "end" | "accept" => matches!(prop, "C02" | "C03" | "C18"),
        "active" | "setstream" => matches!(prop, "C18" | "C02"),
        "out" | "outcount" => matches!(prop, "C04" | "C03"),
        "err" => matches!(prop, "C03" | "C11" | "C02"),
        "conv" | "left" | "boundary" => matches!(prop, "C05" | "C03"),
        _ => false,
    }
}

/// What the last replayed call returned on the real parser.
#[derive(Default)]
struct RealLast { stream: usize, end: bool, output: usize, err: Option<(String, u32)>, got: Vec<u8>, ok: bool }

pub fn replay_edge(case: &Case, h: &[Value], obs: &Obs, micro: &Micro) -> (Vec<Mismatch>, Vec<String>) {
    let mut mm = Vec::new();
    let mut drift = Vec::new();
    let cfg = config(case.b);
    let mut p = match make_stream_parser(&cfg, &case.bytes, case.pre, case.la) {
        Ok(p) => p,
        Err(e) => { mm.push(Mismatch { field: "accept", what: e }); return (mm, drift); },
    };
    let mut fed = case.pre + case.la;
    let mut last = RealLast::default();
    for (i, op) in h.iter().enumerate() {
        let kind = op[0].as_str().unwrap_or("");
        last = RealLast::default();
        match kind {
            "P" => {
                let n = op[1].as_u64().unwrap_or(0) as usize;
                let d = op[2].as_i64().unwrap_or(-1);
                let buf = p.input_buffer();
                if n > buf.len() {
                    mm.push(Mismatch { field: "accept", what: format!("call {i}: parse({n}, ..) is allowed by the specification but the parser offers only {} bytes of input space", buf.len()) });
                    return (mm, drift);
                }
                buf[..n].copy_from_slice(&case.bytes[fed..fed + n]);
                fed += n;
                let mut dest = vec![0xEEu8; d.max(0) as usize];
                let r = if d >= 0 { p.parse(n, Some(&mut dest[..])) } else { p.parse(n, None) };
                match r {
                    Ok(st) => { last.stream = st.stream; last.end = st.stream_end; last.output = st.output;
                        if d >= 0 { if st.stream > dest.len() { mm.push(Mismatch { field: "count", what: format!("call {i}: reported {} bytes into a {}-byte buffer", st.stream, dest.len()) }); return (mm, drift); }
                            last.got = dest[..st.stream].to_vec();
                            if dest[st.stream..].iter().any(|&x| x != 0xEE) { mm.push(Mismatch { field: "got", what: format!("call {i}: bytes beyond the reported count were written into the caller's buffer") }); } } },
                    Err(e) => last.err = Some(err_class(&e)),
                }
            },
            "CS" => {
                let k = op[1].as_u64().unwrap_or(0) as usize;
                let sb = p.stream_buffer();
                last.got = sb[..k.min(sb.len())].to_vec();
                p.consume_stream(k);
            },
            "C" => p.compress(),
            "CO" => p.consume_output(op[1].as_u64().unwrap_or(0) as usize),
            "SS" => { last.ok = p.set_stream(stream_of(op[1].as_u64().unwrap_or(0) as u8)).is_ok(); },
            o => { mm.push(Mismatch { field: "panic", what: format!("unknown op {o}") }); return (mm, drift); },
        }
    }
    if h.is_empty() { return (mm, drift); }
    // --- the last call's result
    let l = &obs.last;
    match l.k.as_str() {
        "parse" => {
            match (&last.err, l.err.as_str()) {
                (None, "") => {
                    if last.stream != l.stream { mm.push(Mismatch { field: "count", what: format!("Status.stream = {}, specification {}", last.stream, l.stream) }); }
                    if last.end != l.end { mm.push(Mismatch { field: "end", what: format!("Status.stream_end = {}, specification {}", last.end, l.end) }); }
                    if last.output != l.output { mm.push(Mismatch { field: "outcount", what: format!("Status.output = {}, specification {}", last.output, l.output) }); }
                    let h_last = h.last().expect("nonempty");
                    if h_last[2].as_i64().unwrap_or(-1) >= 0 {
                        let want = ivs_bytes(&case.bytes, &l.got);
                        if last.got != want { mm.push(Mismatch { field: "got", what: format!("bytes written into the caller's buffer {:?}, specification: wire{:?} = {:?}", last.got, l.got, want) }); }
                    }
                },
                (Some((k, a)), e) if e == k && *a == l.arg => {},
                (got, want) => mm.push(Mismatch { field: "err", what: format!("parse returned {:?}, specification {:?}", got.as_ref().map(|x| format!("Err({}({}))", x.0, x.1)).unwrap_or_else(|| "Ok".into()), if want.is_empty() { "Ok".to_string() } else { format!("Err({want}({}))", l.arg) }) }),
            }
        },
        "consume" => {
            let want = ivs_bytes(&case.bytes, &l.got);
            if last.got != want { mm.push(Mismatch { field: "got", what: format!("consumed stream-buffer bytes {:?}, specification: wire{:?} = {:?}", last.got, l.got, want) }); }
        },
        "setstream" => if last.ok != l.ok { mm.push(Mismatch { field: "setstream", what: format!("set_stream accepted: {}, specification {}", last.ok, l.ok) }); },
        _ => {},
    }
    // --- observable state
    if stream_code(p.active_stream()) != obs.stream {
        mm.push(Mismatch { field: "active", what: format!("active stream {:?}, specification {}", p.active_stream(), obs.stream) });
    }
    let want_sbuf = ivs_bytes(&case.bytes, &obs.sbuf);
    if p.stream_buffer() != want_sbuf {
        mm.push(Mismatch { field: "sbuf", what: format!("stream_buffer() = {:?}, specification: wire{:?} = {:?}", p.stream_buffer(), obs.sbuf, want_sbuf) });
    }
    let all_out = replies_bytes(&obs.oq, case.seed, MAX_CONNS, true);
    let want_out = &all_out[obs.ostart.min(all_out.len())..];
    if p.output_buffer() != want_out {
        mm.push(Mismatch { field: "out", what: format!("output_buffer() = {:?}, specification {:?} from byte {}", p.output_buffer(), obs.oq, obs.ostart) });
    }
    if p.is_record_boundary() != obs.boundary {
        mm.push(Mismatch { field: "boundary", what: format!("is_record_boundary() = {}, specification {}", p.is_record_boundary(), obs.boundary) });
    }
    if p.input_buffer().len() != micro.free {
        drift.push(format!("free input space {} vs modelled {}", p.input_buffer().len(), micro.free));
    }
    match p.clone().into_input() {
        Ok(left) => {
            if obs.conv != "ok" { mm.push(Mismatch { field: "conv", what: "into_input succeeded, specification Interrupted".into() }); }
            else {
                let want = &case.bytes[obs.left.0 as usize..obs.left.1 as usize];
                if left != want { mm.push(Mismatch { field: "left", what: format!("into_input gives {} bytes {:?}, specification: wire[{}..{}] = {:?}", left.len(), left, obs.left.0, obs.left.1, want) }); }
            }
        },
        Err(PError::Interrupted) => if obs.conv != "interrupted" { mm.push(Mismatch { field: "conv", what: "into_input reports Interrupted, specification ok".into() }); },
        Err(e) => mm.push(Mismatch { field: "conv", what: format!("into_input fails with {e}") }),
    }
    if p.output_buffer().is_empty() {
        match p.into_request_parser() {
            Ok(mut rp2) => {
                if obs.conv != "ok" { mm.push(Mismatch { field: "conv", what: "into_request_parser succeeded, specification Interrupted".into() }); }
                else {
                    let room = rp2.input_buffer().len();
                    let want = case.b.max(24).div_ceil(8) * 8 - (obs.left.1 - obs.left.0) as usize;
                    if room != want { mm.push(Mismatch { field: "left", what: format!("request parser created by into_request_parser offers {room} bytes, expected {want} (buffer minus {} leftover bytes)", obs.left.1 - obs.left.0) }); }
                }
            },
            Err(PError::Interrupted) => if obs.conv != "interrupted" { mm.push(Mismatch { field: "conv", what: "into_request_parser reports Interrupted, specification ok".into() }); },
            Err(e) => mm.push(Mismatch { field: "conv", what: format!("into_request_parser fails with {e}") }),
        }
    }
    (mm, drift)
}

fn panic_msg(p: Box<dyn std::any::Any + Send>) -> String {
    p.downcast_ref::<String>().cloned().or_else(|| p.downcast_ref::<&str>().map(|s| s.to_string())).unwrap_or_else(|| "panic".into())
}

/// Reads MC_StreamParser output (case and edge lines) and replays every edge.
pub fn run_replay(prop: &str, seed: u64, input: impl BufRead, mut log: Option<std::fs::File>, rep: &mut Report, threads: usize) {
    use std::io::Write;
    let cases: Arc<RwLock<HashMap<u64, Arc<Case>>>> = Arc::new(RwLock::new(HashMap::new()));
    let results: Arc<Mutex<Vec<(u64, Vec<Value>, Vec<Mismatch>, Vec<String>, Value)>>> = Arc::new(Mutex::new(Vec::new()));
    let counts = Arc::new(Mutex::new((0u64, 0u64, HashMap::<String, u64>::new())));
    let (tx, rx) = std::sync::mpsc::sync_channel::<Vec<String>>(threads * 4);
    let rx = Arc::new(Mutex::new(rx));
    let prev_hook = std::panic::take_hook();
    std::panic::set_hook(Box::new(|_| {}));
    std::thread::scope(|sc| {
        for _ in 0..threads {
            let rx = rx.clone(); let cases = cases.clone(); let results = results.clone(); let counts = counts.clone();
            sc.spawn(move || loop {
                let batch = match rx.lock().unwrap().recv() { Ok(b) => b, Err(_) => break };
                let mut n = 0u64; let mut nt = 0u64;
                let mut kinds: HashMap<String, u64> = HashMap::new();
                for line in batch {
                    let inner: String = serde_json::from_str(&line).unwrap_or_else(|e| { eprintln!("malformed TLC line: {e}"); std::process::exit(2) });
                    let e: EdgeLine = serde_json::from_str(&inner).unwrap_or_else(|e| { eprintln!("malformed edge: {e}: {inner:.300}"); std::process::exit(2) });
                    let case = cases.read().unwrap().get(&e.c).cloned().unwrap_or_else(|| { eprintln!("edge for unknown case {}", e.c); std::process::exit(2) });
                    n += 1;
                    if e.h.len() > 1 { nt += 1; }
                    *kinds.entry(format!("op:{}", e.obs.last.k)).or_insert(0) += 1;
                    let r = catch_unwind(AssertUnwindSafe(|| replay_edge(&case, &e.h, &e.obs, &e.micro)));
                    let (mm, drift) = match r {
                        Ok(x) => x,
                        Err(p) => (vec![Mismatch { field: "panic", what: format!("panic in code under test: {}", panic_msg(p)) }], vec![]),
                    };
                    if !mm.is_empty() || !drift.is_empty() {
                        // separate budgets: results with a mismatch this property owns must never be crowded out by
                        // mismatches other properties own or by drift-only results
                        let class = if mm.iter().any(|m| owns(prop, m.field)) { 0 } else if !mm.is_empty() { 1 } else { 2 };
                        let mut res = results.lock().unwrap();
                        let same = res.iter().filter(|x| (if x.2.iter().any(|m| owns(prop, m.field)) { 0 } else if !x.2.is_empty() { 1 } else { 2 }) == class).count();
                        if same < [200, 200, 50][class] {
                            res.push((e.c, e.h.clone(), mm, drift, serde_json::from_str(&inner).unwrap_or(Value::Null)));
                        }
                    }
                }
                let mut c = counts.lock().unwrap();
                c.0 += n; c.1 += nt;
                for (k, v) in kinds { *c.2.entry(k).or_insert(0) += v; }
            });
        }
        let mut batch = Vec::with_capacity(1000);
        let mut sample_edges: Vec<String> = Vec::new();
        for line in input.lines() {
            let line = line.unwrap_or_else(|e| { eprintln!("read error: {e}"); std::process::exit(2) });
            if line.starts_with("\"{\\\"t\\\":\\\"case\\\"") {
                let inner: String = serde_json::from_str(&line).unwrap_or_else(|e| { eprintln!("malformed case line: {e}"); std::process::exit(2) });
                let cl: CaseLine = serde_json::from_str(&inner).unwrap_or_else(|e| { eprintln!("malformed case: {e}: {inner:.300}"); std::process::exit(2) });
                let case = Case::new(cl, seed).unwrap_or_else(|e| { eprintln!("inconsistent case: {e}"); std::process::exit(2) });
                *rep.kinds.entry(format!("case:{}", case.tag)).or_insert(0) += 1;
                rep.sample(&format!("case:{}", case.tag), 1, || json!({"case": case.id, "tag": case.tag, "B": case.b, "lookahead": case.la,
                    "records": case.wire.recs.iter().map(|r| json!([r.ty, r.id, r.clen, r.plen])).collect::<Vec<_>>(), "bytes_hex": hex(&case.bytes)}));
                cases.write().unwrap().insert(case.id, Arc::new(case));
            } else if line.starts_with("\"{") {
                if sample_edges.len() < 2 && line.len() > 300 { sample_edges.push(line.clone()); }
                batch.push(line);
                if batch.len() >= 1000 { tx.send(std::mem::take(&mut batch)).ok(); }
            } else if let Some(l) = log.as_mut() {
                let _ = writeln!(l, "{line}");
            }
        }
        if !batch.is_empty() { tx.send(batch).ok(); }
        drop(tx);
        for s in sample_edges {
            if let Ok(inner) = serde_json::from_str::<String>(&s) { if let Ok(v) = serde_json::from_str::<Value>(&inner) { rep.samples.push(v); } }
        }
    });
    std::panic::set_hook(prev_hook);
    let (edges, nt, kinds) = { let c = counts.lock().unwrap(); (c.0, c.1, c.2.clone()) };
    rep.evaluations += edges;
    rep.nontrivial += nt;
    *rep.kinds.entry("edge".into()).or_insert(0) += edges;
    for (k, v) in kinds { *rep.kinds.entry(k).or_insert(0) += v; }
    rep.set("cases", json!(cases.read().unwrap().len()));
    let mut other: HashMap<String, u64> = HashMap::new();
    let results = std::mem::take(&mut *results.lock().unwrap());
    for (c, h, mm, drift, edge) in results {
        let case = cases.read().unwrap().get(&c).cloned().expect("case");
        for m in mm {
            if owns(prop, m.field) {
                rep.violation(prop, &format!("stream parser, case {c} ({}), calls {}: {}", case.tag, Value::Array(h.clone()), m.what),
                    json!({"kind": "sp-edge", "B": case.b, "la": case.la, "seed": case.seed, "wire": case.wire, "bytes_hex": hex(&case.bytes), "edge": edge, "field": m.field}));
            } else {
                *other.entry(m.field.to_string()).or_insert(0) += 1;
            }
        }
        for d in drift { rep.drift(format!("stream parser, case {c}, calls {}: {d}", Value::Array(h.clone()))); }
    }
    for (f, n) in other {
        println!("NOTE: {n} edge(s) differ in field '{f}', which property {prop} does not own (see the owning property's check)");
        rep.add(&format!("foreign_mismatch_{f}"), n);
    }
}

pub fn replay_file(prop: &str, r: &Value, rep: &mut Report) {
    let wire: Wire = serde_json::from_value(r["wire"].clone()).unwrap_or_else(|e| { eprintln!("replay wire: {e}"); std::process::exit(2) });
    let bytes = rp::unhex(r["bytes_hex"].as_str().unwrap_or(""));
    let pre = wire.recs.get(2).map_or(wire.len, |x| x.off) as usize;
    let case = Case { id: 0, b: r["B"].as_u64().unwrap_or(24) as usize, tag: "replay".into(), la: r["la"].as_u64().unwrap_or(0) as usize,
        wire, seed: r["seed"].as_u64().unwrap_or(0), bytes, pre };
    let e: EdgeLine = serde_json::from_value(r["edge"].clone()).unwrap_or_else(|e| { eprintln!("replay edge: {e}"); std::process::exit(2) });
    let res = catch_unwind(AssertUnwindSafe(|| replay_edge(&case, &e.h, &e.obs, &e.micro)));
    let mm = match res { Ok((mm, _)) => mm, Err(p) => vec![Mismatch { field: "panic", what: format!("panic in code under test: {}", panic_msg(p)) }] };
    rep.count("replay", &0u8, true);
    for m in mm {
        if owns(prop, m.field) { rep.violation(prop, &format!("stream parser replay: {}", m.what), r.clone()); }
    }
}

// ---------------------------------------------------------------------------
// impl -> spec: seeded drivers over the whole conversion chain
//   request parser -> stream parser -> request parser -> ...
// recording traces for Trace_Parsers.

use crate::gen;
use rand::Rng;
use std::io::Write as _;

/// Finds where delivered stream bytes lie on the wire: the next bytes of the
/// active stream type with the request's id after `cursor`, verified byte for byte.
pub struct Locator<'a> {
    pub recs: &'a [wire::Rec],
    pub bytes: &'a [u8],
    pub cursor: u64,
    /// first pass of the chain driver: positions are not needed yet
    pub dry: bool,
}

impl Locator<'_> {
    /// like `locate`, for bytes of either input stream type (the caller knows they were delivered already)
    pub fn locate_any(&self, chunk: &[u8], own: u32) -> Result<Vec<(u64, u64)>, String> {
        self.locate(chunk, own, 5).or_else(|_| self.locate(chunk, own, 8))
    }
    pub fn locate(&self, chunk: &[u8], own: u32, ty: u8) -> Result<Vec<(u64, u64)>, String> {
        let mut out: Vec<(u64, u64)> = Vec::new();
        if self.dry { return Ok(out); }
        let mut c = self.cursor;
        let mut done = 0usize;
        // index of the first record whose body may contain / follow the cursor
        let mut i = self.recs.partition_point(|r| r.off + 8 + r.clen <= c);
        while done < chunk.len() {
            let Some(r) = self.recs.get(i) else { return Err(format!("{} delivered bytes have no source on the wire after offset {c}", chunk.len() - done)) };
            let (a, b) = (r.off + 8, (r.off + 8 + r.clen).min(self.bytes.len() as u64));
            if r.ver == 1 && r.ty == ty && r.id == own && r.clen > 0 && b > c.max(a) {
                let start = c.max(a);
                let n = ((b - start) as usize).min(chunk.len() - done);
                if self.bytes[start as usize..start as usize + n] != chunk[done..done + n] {
                    return Err(format!("delivered bytes differ from the stream's bytes at wire offset {start}"));
                }
                match out.last_mut() { Some(l) if l.1 == start => l.1 = start + n as u64, _ => out.push((start, start + n as u64)) }
                done += n;
                c = start + n as u64;
            }
            i += 1;
        }
        Ok(out)
    }
}

fn sp_obs(ev: &mut Value, p: &mut stream::Parser, loc: &Locator, own: u32) -> Result<(), String> {
    let active = stream_code(p.active_stream());
    ev["active"] = json!(active);
    let sb = p.stream_buffer().to_vec();
    ev["sbuf"] = if sb.is_empty() { json!([]) } else { json!(loc.locate(&sb, own, active).map_err(|e| format!("stream_buffer(): {e}"))?) };
    ev["olen"] = json!(p.output_buffer().len());
    ev["boundary"] = json!(p.is_record_boundary());
    ev["free"] = json!(p.input_buffer().len());
    Ok(())
}

#[derive(Clone, Copy, PartialEq)]
enum Reader { ReadAll, StopMid, Nothing }

/// Drives one connection's bytes through the conversion chain, appending events.
/// `phases`: offsets at which request parsers start (found by a first, identical run);
/// the offsets found in this run are appended to `found`.
fn trace_chain(out: &mut impl std::io::Write, bytes: &[u8], b: usize, r: &mut rand::rngs::StdRng, phases: &[u64], found: &mut Vec<u64>, dry: bool) -> Result<(u64, String), String> {
    let mut keys = wire::KeyTable::default();
    let w = wire::lex_phased(bytes, &mut keys, phases);
    found.push(0);
    let nd = MAX_CONNS.to_string().len();
    writeln!(out, "{}", json!({"e": "reset", "B": b, "nd": nd, "wire": w})).map_err(|e| e.to_string())?;
    let cfg = config(b);
    let mut events = 0u64;
    let mut fed = 0usize;
    let mut summary = String::new();
    let mut rparser = request::Parser::new(&cfg);
    let mut loc = Locator { recs: &w.recs, bytes, cursor: 0, dry };
    let feed_amount = |r: &mut rand::rngs::StdRng, cap: usize| -> usize {
        if cap == 0 { 0 } else { match r.gen_range(0..6) { 0 => 1, 1 => cap, 2 => cap.min(r.gen_range(1..=9)), 3 => 0, _ => r.gen_range(1..=cap) } }
    };
    for _req in 0..4 {
        // ---- request parser until done
        let mut idle = 0;
        let done = loop {
            let cap = rparser.input_buffer().len().min(bytes.len() - fed);
            let n = feed_amount(r, cap);
            rparser.input_buffer()[..n].copy_from_slice(&bytes[fed..fed + n]);
            fed += n;
            let y = rparser.parse(n);
            let done = y.done;
            let replies = rp::decode_replies(y.output).map_err(|e| format!("request parser output: {e}"))?;
            let free_after = rparser.input_buffer().len();
            let mut ev = json!({"e": "parse", "n": n, "done": done, "out": replies, "room": free_after > 0, "free": free_after,
                "conv": if done { "err" } else { "interrupted" }, "err": "", "arg": 0, "req": {"id": 0, "role": 0, "flags": 0}, "env": [], "envlen": 0, "left": [0, 0]});
            if done {
                match rparser.clone().into_request() {
                    Ok((req, left)) => {
                        let pos = fed - left.len();
                        if bytes[pos..fed] != left[..] { return Err(format!("leftover input differs from wire[{pos}..{fed}]")); }
                        ev["conv"] = json!("ok");
                        ev["req"] = json!({"id": req.request_id.get(), "role": u16::from(req.role), "flags": req.flags.bits()});
                        ev["left"] = json!([pos, fed]);
                        let (env, envlen) = if dry { (json!([]), 0) } else { rp::env_event(&w, bytes, &req, pos as u64, phases)? };
                        ev["env"] = env;
                        ev["envlen"] = json!(envlen);
                    },
                    Err(e) => { let (k, a) = err_class(&e); ev["err"] = json!(k); ev["arg"] = json!(a); summary.push_str(&format!("|fatal:{k}")); },
                }
            }
            writeln!(out, "{ev}").map_err(|e| e.to_string())?;
            events += 1;
            if done { break true; }
            if n == 0 { idle += 1; } else { idle = 0; }
            if fed == bytes.len() && idle >= 2 { break false; }
        };
        if !done { summary.push_str("|more"); break; }
        // ---- conversion
        let conv = rparser.clone().into_stream_parser();
        let mut p = match conv {
            Ok(p) => p,
            Err(_) => { writeln!(out, "{}", json!({"e": "to_stream", "conv": "err", "active": 0})).map_err(|e| e.to_string())?; events += 1; break; },
        };
        let own = u32::from(p.request.request_id.get());
        let role = p.request.role;
        // stream data of this request lies behind its preamble (an earlier request may have used the same id)
        if let Ok((_, left)) = rparser.clone().into_request() { loc.cursor = loc.cursor.max((fed - left.len()) as u64); }
        writeln!(out, "{}", json!({"e": "to_stream", "conv": "ok", "active": stream_code(p.active_stream())})).map_err(|e| e.to_string())?;
        events += 1;
        // ---- stream parser under a random caller
        let reader = gen::pick(r, &[Reader::ReadAll, Reader::ReadAll, Reader::StopMid, Reader::Nothing]);
        let budget = match reader { Reader::ReadAll => 100_000, Reader::StopMid => r.gen_range(1..30), Reader::Nothing => 0 };
        let mut steps = 0;
        let mut closing = false;
        let mut aborted = false;
        let mut idle = 0;
        let mut delivered: u64 = 0;
        loop {
            if !closing && steps >= budget { closing = true; }
            steps += 1;
            if steps > 400_000 { return Err("stream parser makes no progress (event budget exhausted)".into()); }
            // choose an operation
            let sbuf_len = p.stream_buffer().len();
            let olen = p.output_buffer().len();
            let op = if closing {
                if p.active_stream().is_some() { 4 } else if olen > 0 && r.gen_bool(0.5) { 3 } else if p.is_record_boundary() { 9 } else { 0 }
            } else {
                match r.gen_range(0..20) { 0 | 1 if sbuf_len > 0 => 1, 2 => 2, 3 if olen > 0 => 3, 4 if r.gen_bool(0.15) => 4, _ => if sbuf_len > 0 && r.gen_bool(0.6) { 1 } else { 0 } }
            };
            match op {
                0 => { // parse
                    if p.input_buffer().is_empty() && !closing { p.compress(); let mut ev = json!({"e": "compress"}); sp_obs(&mut ev, &mut p, &loc, own)?; writeln!(out, "{ev}").map_err(|e| e.to_string())?; events += 1; }
                    if closing { p.compress(); let mut ev = json!({"e": "compress"}); sp_obs(&mut ev, &mut p, &loc, own)?; writeln!(out, "{ev}").map_err(|e| e.to_string())?; events += 1; }
                    let cap = p.input_buffer().len().min(bytes.len() - fed);
                    let n = feed_amount(r, cap);
                    p.input_buffer()[..n].copy_from_slice(&bytes[fed..fed + n]);
                    fed += n;
                    let use_dest = p.stream_buffer().is_empty() && !closing && r.gen_bool(0.5);
                    let dlen = if use_dest { gen::pick(r, &[0usize, 1, 2, 7, 64, 5000]) } else { 0 };
                    let mut dest = vec![0xEEu8; dlen];
                    let before = p.output_buffer().len();
                    let active = stream_code(p.active_stream());
                    let res = if use_dest { p.parse(n, Some(&mut dest[..])) } else { p.parse(n, None) };
                    let after = p.output_buffer().len();
                    let newout = rp::decode_replies(&p.output_buffer()[before.min(after)..]).map_err(|e| format!("stream parser output: {e}"))?;
                    let mut ev = json!({"e": "sparse", "n": n, "dest": if use_dest { dlen as i64 } else { -1 }, "ok": res.is_ok(), "stream": 0, "end": false, "output": 0,
                        "err": "", "arg": 0, "got": [], "newout": newout});
                    let mut progressed = n > 0;
                    match res {
                        Ok(st) => {
                            ev["stream"] = json!(st.stream); ev["end"] = json!(st.stream_end); ev["output"] = json!(st.output);
                            if st.output != after - before { return Err(format!("Status.output = {} but the output buffer grew by {}", st.output, after - before)); }
                            if use_dest {
                                if st.stream > dlen || dest[st.stream..].iter().any(|&x| x != 0xEE) { return Err("caller buffer overrun".into()); }
                                let ivs = loc.locate(&dest[..st.stream], own, active).map_err(|e| format!("parse into caller buffer: {e}"))?;
                                if let Some(l) = ivs.last() { loc.cursor = l.1; }
                                delivered += st.stream as u64;
                                ev["got"] = json!(ivs);
                            }
                            if st.stream > 0 { progressed = true; }
                            if st.stream_end && !closing && p.active_stream().is_some() && r.gen_bool(0.7) {
                                // advance along the role's order when the stream ended
                                sp_obs(&mut ev, &mut p, &loc, own)?; writeln!(out, "{ev}").map_err(|e| e.to_string())?; events += 1;
                                let next = role.next_input_stream(p.active_stream());
                                let ok = p.set_stream(next).is_ok();
                                let mut ev2 = json!({"e": "setstream", "s": stream_code(next), "ok": ok});
                                sp_obs(&mut ev2, &mut p, &loc, own)?; writeln!(out, "{ev2}").map_err(|e| e.to_string())?; events += 1;
                                if next.is_none() { closing = true; }
                                continue;
                            }
                        },
                        Err(e) => {
                            let (k, a) = err_class(&e); ev["err"] = json!(k); ev["arg"] = json!(a);
                            if k == "Abort" { aborted = true; closing = true; } else { sp_obs(&mut ev, &mut p, &loc, own)?; writeln!(out, "{ev}").map_err(|e| e.to_string())?; events += 1; summary.push_str(&format!("|sperr:{k}")); return Ok((events, summary)); }
                        },
                    }
                    sp_obs(&mut ev, &mut p, &loc, own)?;
                    writeln!(out, "{ev}").map_err(|e| e.to_string())?; events += 1;
                    if progressed { idle = 0; } else { idle += 1; }
                    if fed == bytes.len() && idle >= 3 { summary.push_str(&format!("|eof:{delivered}")); return Ok((events, summary)); }
                },
                1 => { // consume
                    let k = gen::pick(r, &[1usize, 3, 64, 100_000]);
                    let sb = p.stream_buffer();
                    let m = k.min(sb.len());
                    let active = stream_code(p.active_stream());
                    let ivs = loc.locate(&sb[..m], own, active).map_err(|e| format!("consume_stream: {e}"))?;
                    p.consume_stream(k);
                    if let Some(l) = ivs.last() { loc.cursor = l.1; }
                    delivered += m as u64;
                    let mut ev = json!({"e": "consume", "k": k, "got": ivs});
                    sp_obs(&mut ev, &mut p, &loc, own)?; writeln!(out, "{ev}").map_err(|e| e.to_string())?; events += 1;
                },
                2 => { p.compress(); let mut ev = json!({"e": "compress"}); sp_obs(&mut ev, &mut p, &loc, own)?; writeln!(out, "{ev}").map_err(|e| e.to_string())?; events += 1; },
                3 => { let k = gen::pick(r, &[1usize, 5, 16, 100_000]); p.consume_output(k); let mut ev = json!({"e": "consumeout", "k": k}); sp_obs(&mut ev, &mut p, &loc, own)?; writeln!(out, "{ev}").map_err(|e| e.to_string())?; events += 1; },
                4 => { // set_stream: legal and illegal selections
                    let s = if closing { None } else { gen::pick(r, &[Some(fcgi::RecordType::Stdin), Some(fcgi::RecordType::Data), None, role.next_input_stream(p.active_stream())]) };
                    let ok = p.set_stream(s).is_ok();
                    let mut ev = json!({"e": "setstream", "s": stream_code(s), "ok": ok});
                    sp_obs(&mut ev, &mut p, &loc, own)?; writeln!(out, "{ev}").map_err(|e| e.to_string())?; events += 1;
                    if ok && s.is_none() { closing = true; }
                },
                _ => break, // 9: at a record boundary with nothing left to do
            }
        }
        // ---- back to a request parser (the epilogue of Request::close)
        let left = p.clone().into_input();
        let mut ev = json!({"e": "to_input", "conv": if left.is_ok() { "ok" } else { "interrupted" }, "left": [0, 0]});
        if let Ok(v) = &left {
            let pos = fed - v.len();
            if bytes[pos..fed] != v[..] { return Err(format!("into_input differs from wire[{pos}..{fed}]")); }
            ev["left"] = json!([pos, fed]);
        }
        writeln!(out, "{ev}").map_err(|e| e.to_string())?; events += 1;
        if !p.output_buffer().is_empty() { p.consume_output(usize::MAX); let mut ev = json!({"e": "consumeout", "k": 1_000_000_000}); sp_obs(&mut ev, &mut p, &loc, own)?; writeln!(out, "{ev}").map_err(|e| e.to_string())?; events += 1; }
        summary.push_str(&format!("|req:{own}:{delivered}{}", if aborted { ":aborted" } else { "" }));
        match p.into_request_parser() {
            Ok(mut np) => {
                let room = np.input_buffer().len();
                found.push((fed - (cfg_buf(b) - room)) as u64);
                writeln!(out, "{}", json!({"e": "to_request", "conv": "ok", "free": room})).map_err(|e| e.to_string())?; events += 1; rparser = np;
            },
            Err(_) => { writeln!(out, "{}", json!({"e": "to_request", "conv": "interrupted", "free": 0})).map_err(|e| e.to_string())?; events += 1; break; },
        }
        if fed == bytes.len() && rparser.input_buffer().len() == cfg_buf(b) { break; }
    }
    Ok((events, summary))
}

/// Runs the chain twice with the same seed: the first run finds the offsets at which
/// request parsers start (needed to describe the bytes), the second records the trace.
fn two_pass(bytes: &[u8], b: usize, seed: u64) -> (Vec<u8>, Result<(u64, String), String>) {
    let mut found = Vec::new();
    let mut sink: Vec<u8> = Vec::new();
    let mut r1 = gen::rng(seed);
    let first = trace_chain(&mut sink, bytes, b, &mut r1, &[0], &mut found, true);
    if first.is_err() { return (sink, first); }
    let phases = found.clone();
    let mut buf: Vec<u8> = Vec::new();
    let mut found2 = Vec::new();
    let mut r2 = gen::rng(seed);
    let res = trace_chain(&mut buf, bytes, b, &mut r2, &phases, &mut found2, false);
    if found2 != phases { return (buf, Err(format!("hand-off offsets differ between two identical runs: {phases:?} vs {found2:?}"))); }
    (buf, res)
}

fn cfg_buf(b: usize) -> usize { if b <= 24 { 24 } else { (b + 7) / 8 * 8 } }

/// A connection carrying 1..3 requests with input streams per role.
pub fn gen_connection(r: &mut rand::rngs::StdRng, b: usize, big: bool) -> Vec<u8> {
    gen_connection_ids(r, b, big).0
}

/// Also returns, per generated request, (offset of its BeginRequest, request id, role).
pub fn gen_connection_ids(r: &mut rand::rngs::StdRng, b: usize, big: bool) -> (Vec<u8>, Vec<(usize, u16, u16)>) {
    let mut bytes = Vec::new();
    let mut reqs = Vec::new();
    let nreq = r.gen_range(1..=3);
    for q in 0..nreq {
        let id: u16 = gen::pick(r, &[1u16, 2, 300, 65535]).wrapping_add(q as u16).max(1);
        let role = gen::pick(r, &[1u16, 1, 2, 3, 3]);
        reqs.push((bytes.len(), id, role));
        let o = gen::ReqOpts { id, role, flags: r.gen::<u8>() & 1, max_pair: (b - 13).min(300), npairs: r.gen_range(0..5), interleave: r.gen_bool(0.3), big: false };
        gen::preamble(&mut bytes, r, &o);
        let classes: &[usize] = if big { &[0, 1, 7, 200, 5000, 65535, 70000, 200_000] } else { &[0, 0, 1, 2, 9, 40, 300] };
        let abort_at = if r.gen_bool(0.12) { Some(r.gen_range(0..3)) } else { None };
        let order: Vec<u8> = match role { 1 => vec![5], 3 => if r.gen_bool(0.15) { vec![8, 5] } else { vec![5, 8] }, _ => if r.gen_bool(0.3) { vec![5] } else { vec![] } };
        for (k, ty) in order.iter().enumerate() {
            if abort_at == Some(k) { gen::record(&mut bytes, r, 2, id, &[], 0); }
            let n = gen::pick(r, classes);
            let content = gen::rand_bytes(r, n);
            let end = r.gen_bool(0.9);
            let il = r.gen_bool(0.4); gen::stream_records(&mut bytes, r, *ty, id, &content, end, il);
        }
        if abort_at == Some(2) { let body = gen::rand_bytes(r, 3); gen::record(&mut bytes, r, 2, id, &body, 5); }
        if r.gen_bool(0.2) { gen::noise_record(&mut bytes, r, id); }
    }
    (bytes, reqs)
}

pub fn run_trace(prop: &str, seed: u64, scenarios: u64, path: &std::path::Path, rep: &mut Report) {
    let f = std::fs::File::create(path).unwrap_or_else(|e| { eprintln!("cannot create {}: {e}", path.display()); std::process::exit(2) });
    let mut out = std::io::BufWriter::new(f);
    let mut total_events = 0u64;
    let mut runs = 0u64;
    let prev_hook = std::panic::take_hook();
    std::panic::set_hook(Box::new(|_| {}));
    let only = std::env::var("VERIF_ONLY").ok().and_then(|x| x.parse::<u64>().ok());
    for s in 0..scenarios {
        if only.is_some_and(|o| o != s) { continue; }
        let mut r = gen::rng(seed.wrapping_mul(7_000_003).wrapping_add(s));
        let class = s % 6;
        let (b, kind, bytes): (usize, &str, Vec<u8>) = match class {
            0 | 1 => { let b = gen::pick(&mut r, &[24usize, 32, 64]); (b, "small-buffer", gen_connection(&mut r, b, false)) },
            2 => (8192, "realistic", gen_connection(&mut r, 8192, true)),
            3 => { let b = gen::pick(&mut r, &[24usize, 256]); (b, "big-stream-small-buffer", gen_connection(&mut r, b, true)) },
            4 => { let b = gen::pick(&mut r, &[24usize, 64, 8192]); let mut x = gen_connection(&mut r, b, false); gen::mutate(&mut x, &mut r); (b, "mutated", x) },
            _ => { let b = gen::pick(&mut r, &[24usize, 64]); let mut x = gen_connection(&mut r, b, false); let cut = r.gen_range(0..=x.len()); x.truncate(cut); (b, "truncated", x) },
        };
        for rerun in 0..2u64 {
            let mut r2 = gen::rng(seed ^ (s << 8) ^ rerun);
            let res = catch_unwind(AssertUnwindSafe(|| two_pass(&bytes, b, seed ^ (s << 8) ^ rerun)));
            let _ = &mut r2;
            runs += 1;
            let replay = json!({"kind": "sp-bytes", "B": b, "bytes_hex": if bytes.len() <= 20000 { hex(&bytes) } else { String::new() }, "seed": seed, "scenario": s, "rerun": rerun});
            match res {
                Ok((buf, Ok((ev, _summary)))) => { out.write_all(&buf).ok(); total_events += ev; },
                Ok((buf, Err(what))) => {
                    if std::env::var("VERIF_DEBUG").is_ok() {
                        let text = String::from_utf8_lossy(&buf);
                        let lines: Vec<&str> = text.lines().collect();
                        for l in lines.iter().skip(1).rev().take(6).rev() { eprintln!("  event: {l:.400}"); }
                        let mut keys = wire::KeyTable::default();
                        let w = wire::lex(&bytes, &mut keys);
                        for rc in w.recs.iter().take(12) { eprintln!("  rec off={} ty={} id={} clen={} plen={}", rc.off, rc.ty, rc.id, rc.clen, rc.plen); }
                    }
                    rep.violation(prop, &format!("parser chain driver ({kind}, B={b}): {what}"), replay)
                },
                Err(p) => rep.violation(prop, &format!("parser chain driver ({kind}, B={b}): panic in code under test: {}", panic_msg(p)), replay),
            }
        }
        rep.count(kind, &bytes, bytes.len() > 40);
        rep.sample(kind, 1, || json!({"scenario": s, "class": kind, "B": b, "bytes": bytes.len(), "head_hex": hex(&bytes[..bytes.len().min(48)])}));
    }
    std::panic::set_hook(prev_hook);
    out.flush().ok();
    rep.set("trace_events", json!(total_events));
    rep.set("trace_runs", json!(runs));
    rep.set("trace_path", json!(path.display().to_string()));
}

pub fn replay_bytes(prop: &str, r: &Value, rep: &mut Report) {
    let bytes = rp::unhex(r["bytes_hex"].as_str().unwrap_or(""));
    if bytes.is_empty() { eprintln!("replay record carries no bytes (scenario too large): re-run the check with the recorded seed"); std::process::exit(2); }
    let b = r["B"].as_u64().unwrap_or(24) as usize;
    for rerun in 0..4u64 {
        let mut r2 = gen::rng(r["seed"].as_u64().unwrap_or(1) ^ (r["scenario"].as_u64().unwrap_or(0) << 8) ^ rerun);
        let _ = &mut r2;
        let res = catch_unwind(AssertUnwindSafe(|| two_pass(&bytes, b, r["seed"].as_u64().unwrap_or(1) ^ (r["scenario"].as_u64().unwrap_or(0) << 8) ^ rerun).1));
        match res {
            Ok(Ok(_)) => {},
            Ok(Err(what)) => rep.violation(prop, &what, r.clone()),
            Err(p) => rep.violation(prop, &format!("panic in code under test: {}", panic_msg(p)), r.clone()),
        }
    }
    rep.count("replay", &0u8, true);
}
