//! Reads TLC's standard output: lines that are JSON string literals (printed
//! by `PrintT(ToJson(..))`) are decoded into values and handed to the
//! consumer, every other line is copied to a log file for `/verif/check`.

use std::io::{BufRead, Write};

use serde_json::Value;

pub fn for_each_vector(
    input: impl BufRead,
    mut log: Option<std::fs::File>,
    mut f: impl FnMut(Value),
) -> u64 {
    let mut n = 0;
    for line in input.lines() {
        let line = match line {
            Ok(l) => l,
            Err(e) => { eprintln!("error reading TLC output: {e}"); std::process::exit(2) },
        };
        if line.starts_with("\"{") {
            let inner: String = match serde_json::from_str(&line) {
                Ok(s) => s,
                Err(e) => { eprintln!("malformed TLC vector line ({e}): {line:.200}"); std::process::exit(2) },
            };
            let v: Value = match serde_json::from_str(&inner) {
                Ok(v) => v,
                Err(e) => { eprintln!("malformed TLC vector JSON ({e}): {inner:.200}"); std::process::exit(2) },
            };
            n += 1;
            f(v);
        } else if let Some(l) = log.as_mut() {
            let _ = writeln!(l, "{line}");
        }
    }
    n
}

pub fn bytes_of(v: &Value) -> Vec<u8> {
    v.as_array().map(|a| a.iter().map(|x| x.as_u64().unwrap_or(0) as u8).collect()).unwrap_or_default()
}

pub fn u(v: &Value, k: &str) -> u64 {
    v.get(k).and_then(Value::as_u64).unwrap_or_else(|| panic!("vector lacks integer field {k}: {v}"))
}

pub fn b(v: &Value, k: &str) -> bool {
    v.get(k).and_then(Value::as_bool).unwrap_or_else(|| panic!("vector lacks boolean field {k}: {v}"))
}

pub fn s<'a>(v: &'a Value, k: &str) -> &'a str {
    v.get(k).and_then(Value::as_str).unwrap_or_else(|| panic!("vector lacks string field {k}: {v}"))
}
