//! Replays the vectors emitted by MC_Codec15/16/17 on the crate's public
//! encode/decode functions (C15, C16, C17, buffer-size rule of C06).

use std::io::BufRead;
use std::panic::{catch_unwind, AssertUnwindSafe};

use fastcgi_server::protocol::{self as fcgi, body, nv, varint::VarInt};
use fastcgi_server::{Config, ExitStatus};
use serde_json::{json, Value};

use crate::report::Report;
use crate::tlcin::{b, bytes_of, for_each_vector, s, u};

/// Independent mirror of Codec!EncVarInt / Codec!DecVarInt used for the
/// exhaustive sweep; validated against every TLC vector before use.
pub fn enc_mirror(v: u32) -> ([u8; 4], usize) {
    if v < 128 { ([v as u8, 0, 0, 0], 1) } else { let mut e = v.to_be_bytes(); e[0] |= 0x80; (e, 4) }
}
pub fn dec_mirror(bs: &[u8]) -> Option<(u32, usize)> {
    let f = *bs.first()?;
    if f < 128 { return Some((f.into(), 1)); }
    if bs.len() < 4 { return None; }
    Some((u32::from_be_bytes([f & 0x7f, bs[1], bs[2], bs[3]]), 4))
}

fn mismatch(rep: &mut Report, prop: &str, vec: &Value, what: String) {
    rep.violation(prop, &what, json!({"kind": "vector", "vector": vec}));
}

pub fn check_vector(rep: &mut Report, prop: &str, v: &Value) {
    let t = s(v, "t").to_string();
    let res = catch_unwind(AssertUnwindSafe(|| check_inner(&t, v)));
    match res {
        Ok(Ok(())) => {},
        Ok(Err(what)) => mismatch(rep, prop, v, format!("{t}: {what}")),
        Err(p) => {
            let msg = p.downcast_ref::<String>().cloned()
                .or_else(|| p.downcast_ref::<&str>().map(|s| s.to_string())).unwrap_or_default();
            mismatch(rep, prop, v, format!("{t}: panic in code under test: {msg}"));
        },
    }
}

macro_rules! ensure {
    ($c:expr, $($arg:tt)*) => { if !($c) { return Err(format!($($arg)*)); } };
}

fn decode_nv<'a>(data: &'a [u8]) -> Result<(Vec<(usize, usize, usize, usize)>, usize, usize), String> {
    let base = data.as_ptr() as usize;
    let mut it = nv::NVIter::new(data);
    let hint = it.size_hint().1.ok_or("size_hint has no upper bound")?;
    let mut out = Vec::new();
    for (n, val) in &mut it {
        let ns = n.as_ptr() as usize - base;
        let vs = val.as_ptr() as usize - base;
        out.push((ns, ns + n.len(), vs, vs + val.len()));
    }
    ensure!(it.next().is_none(), "iterator resumed after returning None");
    let rest = it.into_inner();
    let ro = if rest.is_empty() && out.is_empty() && data.is_empty() { 0 } else { rest.as_ptr() as usize - base };
    ensure!(ro + rest.len() == data.len(), "undecoded suffix [{}..{}) does not end at the input's end {}", ro, ro + rest.len(), data.len());
    Ok((out, ro, hint))
}

fn check_nv(v: &Value) -> Result<(), String> {
    let data = bytes_of(&v["bytes"]);
    let want: Vec<(usize, usize, usize, usize)> = v["pairs"].as_array().ok_or("pairs")?.iter()
        .map(|p| (u(p, "ns") as usize, u(p, "ne") as usize, u(p, "vs") as usize, u(p, "ve") as usize)).collect();
    let (got, rest, hint) = decode_nv(&data)?;
    ensure!(got == want, "pairs (as offsets into the input) {got:?}, specification {want:?}");
    ensure!(rest == u(v, "rest") as usize, "undecoded suffix starts at {rest}, specification {}", u(v, "rest"));
    ensure!(got.len() <= hint, "{} pairs exceed the size hint {hint}", got.len());
    // (the exact value of the hint is the implementation's choice: the property only asks that it is never exceeded)
    let _ = u(v, "hint");
    // mutable variant agrees with the shared one
    let mut copy = data.clone();
    let base = copy.as_ptr() as usize;
    let mut it = nv::NVIter::new(&mut copy[..]);
    let mut got_mut = Vec::new();
    for (n, val) in &mut it {
        let ns = n.as_ptr() as usize - base;
        let vs = val.as_ptr() as usize - base;
        got_mut.push((ns, ns + n.len(), vs, vs + val.len()));
    }
    let rest_mut = it.into_inner().len();
    ensure!(got_mut == want, "mutable variant yields {got_mut:?}, specification {want:?}");
    ensure!(data.len() - rest_mut == rest, "mutable variant leaves {rest_mut} bytes, shared leaves {}", data.len() - rest);
    Ok(())
}

/// A reader that hands out at most `chunk` bytes per `read` call (a socket, a chunked adapter).
pub struct Chunked<'a> { pub data: &'a [u8], pub pos: usize, pub chunk: usize }
impl std::io::Read for Chunked<'_> {
    fn read(&mut self, buf: &mut [u8]) -> std::io::Result<usize> {
        let n = buf.len().min(self.chunk).min(self.data.len() - self.pos);
        buf[..n].copy_from_slice(&self.data[self.pos..self.pos + n]);
        self.pos += n;
        Ok(n)
    }
}
/// A writer that accepts at most `chunk` bytes per `write` call and uses the default `write_vectored`.
pub struct ShortWriter { pub out: Vec<u8>, pub chunk: usize }
impl std::io::Write for ShortWriter {
    fn write(&mut self, buf: &[u8]) -> std::io::Result<usize> {
        let n = buf.len().min(self.chunk);
        self.out.extend_from_slice(&buf[..n]);
        Ok(n)
    }
    fn flush(&mut self) -> std::io::Result<()> { Ok(()) }
}
/// A writer with a real gathered `write_vectored` that accepts at most `chunk` bytes per call.
pub struct ShortVectored { pub out: Vec<u8>, pub chunk: usize }
impl std::io::Write for ShortVectored {
    fn write(&mut self, buf: &[u8]) -> std::io::Result<usize> {
        let n = buf.len().min(self.chunk);
        self.out.extend_from_slice(&buf[..n]);
        Ok(n)
    }
    fn write_vectored(&mut self, bufs: &[std::io::IoSlice<'_>]) -> std::io::Result<usize> {
        let mut left = self.chunk;
        let mut n = 0;
        for b in bufs {
            let k = b.len().min(left);
            self.out.extend_from_slice(&b[..k]);
            n += k;
            left -= k;
            if left == 0 { break; }
        }
        Ok(n)
    }
    fn flush(&mut self) -> std::io::Result<()> { Ok(()) }
}

fn check_inner(t: &str, v: &Value) -> Result<(), String> {
    match t {
        "vi.enc" => {
            let val = u(v, "v") as u32;
            let want = bytes_of(&v["bytes"]);
            let vi = VarInt::try_from(val).map_err(|e| format!("try_from({val}) failed: {e}"))?;
            ensure!(u32::from(vi) == val, "u32::from gives {}", u32::from(vi));
            ensure!(usize::try_from(vi) == Ok(val as usize), "usize::try_from differs");
            let viu = VarInt::try_from(val as usize).map_err(|e| format!("try_from(usize {val}) failed: {e}"))?;
            ensure!(viu == vi, "usize and u32 conversions differ");
            let mut out = Vec::new();
            let n = vi.write(&mut out).map_err(|e| e.to_string())?;
            ensure!(n == out.len(), "write reported {n} bytes, wrote {}", out.len());
            ensure!(out == want, "encoded {out:?}, specification {want:?}");
            for c in 1..=3usize {
                let mut wr = ShortWriter { out: Vec::new(), chunk: c };
                let n = vi.write(&mut wr).map_err(|e| e.to_string())?;
                ensure!(n == want.len() && wr.out == want, "writer accepting {c} bytes per call: reported {n}, wrote {:?}, specification {want:?}", wr.out);
            }
            let mut cur = &out[..];
            let back = VarInt::read(&mut cur).map_err(|e| format!("decode of own encoding failed: {e}"))?;
            ensure!(back == vi && cur.is_empty(), "decode(encode({val})) = {back} leaving {} bytes", cur.len());
            ensure!(enc_mirror(val).1 == want.len() && enc_mirror(val).0[..want.len()] == want[..], "mirror disagrees with the specification");
            Ok(())
        },
        "vi.dec" => {
            let data = bytes_of(&v["bytes"]);
            let mut cur = &data[..];
            let r = VarInt::read(&mut cur);
            let ok = b(v, "ok");
            match r {
                Ok(vi) => {
                    ensure!(ok, "decoded {vi} where the specification fails");
                    ensure!(u64::from(u32::from(vi)) == u(v, "val"), "decoded {vi}, specification {}", u(v, "val"));
                    ensure!((data.len() - cur.len()) as u64 == u(v, "used"), "consumed {}, specification {}", data.len() - cur.len(), u(v, "used"));
                },
                Err(e) => {
                    ensure!(!ok, "failed ({e}) where the specification decodes {}", u(v, "val"));
                    ensure!(e.kind() == std::io::ErrorKind::UnexpectedEof, "error kind {:?}, expected UnexpectedEof", e.kind());
                },
            }
            // the same bytes through a reader that hands them out in pieces of at most c bytes per read call
            for c in 1..=4usize {
                let mut rd = Chunked { data: &data, pos: 0, chunk: c };
                match VarInt::read(&mut rd) {
                    Ok(vi) => {
                        ensure!(ok, "chunked reader ({c} bytes per read): decoded {vi} where the specification fails");
                        ensure!(u64::from(u32::from(vi)) == u(v, "val"), "chunked reader ({c} bytes per read): decoded {vi}, specification {}", u(v, "val"));
                        ensure!(rd.pos as u64 == u(v, "used"), "chunked reader ({c} bytes per read): consumed {}, specification {}", rd.pos, u(v, "used"));
                    },
                    Err(e) => {
                        ensure!(!ok, "chunked reader ({c} bytes per read): failed ({e}) where the specification decodes {}", u(v, "val"));
                        ensure!(e.kind() == std::io::ErrorKind::UnexpectedEof, "chunked reader: error kind {:?}, expected UnexpectedEof", e.kind());
                    },
                }
            }
            let m = dec_mirror(&data);
            ensure!(m.is_some() == ok && m.map_or(true, |(x, n)| u64::from(x) == u(v, "val") && n as u64 == u(v, "used")), "mirror disagrees with the specification");
            Ok(())
        },
        "vi.try" => {
            let x = ((u(v, "hi") as u32) << 16) | u(v, "lo") as u32;
            let ok = b(v, "ok");
            let r = VarInt::try_from(x);
            ensure!(r.is_ok() == ok, "try_from({x}) ok={}, specification {ok}", r.is_ok());
            let r2 = VarInt::try_from(x as usize);
            ensure!(r2.is_ok() == ok, "try_from({x}usize) ok={}, specification {ok}", r2.is_ok());
            if let Ok(vi) = r { ensure!(u32::from(vi) == x, "value changed by conversion"); }
            Ok(())
        },
        "nv.dec" => check_nv(v),
        "nv.rt" => {
            let data = bytes_of(&v["bytes"]);
            let mut out = Vec::new();
            for p in v["pairs"].as_array().ok_or("pairs")? {
                let name = &data[u(p, "ns") as usize..u(p, "ne") as usize];
                let val = &data[u(p, "vs") as usize..u(p, "ve") as usize];
                let before = out.len();
                let n = nv::write((name, val), &mut out).map_err(|e| e.to_string())?;
                ensure!(n == out.len() - before, "write reported {n} bytes, wrote {}", out.len() - before);
            }
            ensure!(out == data, "encoding of the pair list differs from the specification's at byte {:?}", out.iter().zip(&data).position(|(a, b)| a != b));
            check_nv(v)
        },
        "hd.dec" => {
            let data: [u8; 8] = bytes_of(&v["bytes"]).try_into().map_err(|_| "not 8 bytes")?;
            match fcgi::RecordHeader::from_bytes(data) {
                Ok(h) => {
                    ensure!(b(v, "ok"), "decoded {h:?} where the specification rejects ({} {})", s(v, "err"), u(v, "code"));
                    ensure!(u64::from(u8::from(h.rtype)) == u(v, "ty") && u64::from(h.request_id) == u(v, "id")
                        && u64::from(h.content_length) == u(v, "clen") && u64::from(h.padding_length) == u(v, "plen")
                        && u8::from(h.version) == 1, "decoded {h:?}, specification {v}");
                    let mut want = data; want[7] = 0;
                    ensure!(h.to_bytes() == want, "re-encoding {:?} differs from input {want:?}", h.to_bytes());
                },
                Err(e) => {
                    ensure!(!b(v, "ok"), "rejected ({e}) where the specification decodes");
                    let (kind, code) = match e {
                        fcgi::Error::UnknownVersion(c) => ("version", c),
                        fcgi::Error::UnknownRecordType(c) => ("type", c),
                        ref o => return Err(format!("unexpected error {o}")),
                    };
                    ensure!(kind == s(v, "err") && u64::from(code) == u(v, "code"), "error {kind}({code}), specification {}({})", s(v, "err"), u(v, "code"));
                },
            }
            Ok(())
        },
        "hd.enc" => {
            let rtype = fcgi::RecordType::try_from(u(v, "ty") as u8).map_err(|e| e.to_string())?;
            let h = fcgi::RecordHeader { version: fcgi::Version::V1, rtype, request_id: u(v, "id") as u16,
                content_length: u(v, "clen") as u16, padding_length: u(v, "plen") as u8 };
            let want = bytes_of(&v["bytes"]);
            ensure!(h.to_bytes()[..] == want[..], "encoded {:?}, specification {want:?}", h.to_bytes());
            let back = fcgi::RecordHeader::from_bytes(h.to_bytes()).map_err(|e| e.to_string())?;
            ensure!(back == h, "decode(encode(h)) = {back:?}");
            Ok(())
        },
        "pad" => {
            let len = u(v, "len") as u16;
            let mut h = fcgi::RecordHeader::new(fcgi::RecordType::Stdout, 1);
            h.set_lengths(len);
            ensure!(h.content_length == len, "content_length {}", h.content_length);
            ensure!(u64::from(h.padding_length) == u(v, "pad"), "padding {} for length {len}, specification {}", h.padding_length, u(v, "pad"));
            ensure!(h.padding_bytes().len() == usize::from(h.padding_length) && h.padding_bytes().iter().all(|&x| x == 0), "padding bytes");
            Ok(())
        },
        "begin.dec" => {
            let data: [u8; 8] = bytes_of(&v["bytes"]).try_into().map_err(|_| "not 8 bytes")?;
            match body::BeginRequest::from_bytes(data) {
                Ok(br) => {
                    ensure!(b(v, "ok"), "decoded {br:?} where the specification rejects");
                    ensure!(u64::from(u16::from(br.role)) == u(v, "role") && u64::from(br.flags.bits()) == u(v, "flags"), "decoded {br:?}, specification {v}");
                    ensure!(br.to_bytes()[..3] == data[..3] && br.to_bytes()[3..] == [0; 5], "re-encoding differs");
                },
                Err(fcgi::Error::UnknownRole(r)) => {
                    ensure!(!b(v, "ok") && u64::from(r) == u(v, "role"), "rejected role {r}, specification {v}");
                },
                Err(e) => return Err(format!("unexpected error {e}")),
            }
            Ok(())
        },
        "begin.enc" => {
            let role = fcgi::Role::try_from(u(v, "role") as u16).map_err(|e| e.to_string())?;
            let br = body::BeginRequest { role, flags: fcgi::RequestFlags::from(u(v, "flags") as u8) };
            ensure!(br.to_bytes()[..] == bytes_of(&v["body"])[..], "body {:?}", br.to_bytes());
            ensure!(br.to_record(u(v, "id") as u16)[..] == bytes_of(&v["rec"])[..], "record {:?}", br.to_record(u(v, "id") as u16));
            ensure!(body::BeginRequest::from_bytes(br.to_bytes()).map_err(|e| e.to_string())? == br, "round trip");
            Ok(())
        },
        "end.dec" => {
            let data: [u8; 8] = bytes_of(&v["bytes"]).try_into().map_err(|_| "not 8 bytes")?;
            match body::EndRequest::from_bytes(data) {
                Ok(er) => {
                    ensure!(b(v, "ok"), "decoded {er:?} where the specification rejects");
                    ensure!(er.app_status.to_be_bytes()[..] == bytes_of(&v["app"])[..] && u64::from(u8::from(er.protocol_status)) == u(v, "pstat"), "decoded {er:?}, specification {v}");
                    ensure!(er.to_bytes()[..5] == data[..5] && er.to_bytes()[5..] == [0; 3], "re-encoding differs");
                },
                Err(fcgi::Error::UnknownStatus(c)) => {
                    ensure!(!b(v, "ok") && u64::from(c) == u(v, "pstat"), "rejected status {c}, specification {v}");
                },
                Err(e) => return Err(format!("unexpected error {e}")),
            }
            Ok(())
        },
        "end.enc" => {
            let app: [u8; 4] = bytes_of(&v["app"]).try_into().map_err(|_| "app")?;
            let er = body::EndRequest { app_status: u32::from_be_bytes(app),
                protocol_status: fcgi::ProtocolStatus::try_from(u(v, "pstat") as u8).map_err(|e| e.to_string())? };
            ensure!(er.to_bytes()[..] == bytes_of(&v["body"])[..], "body {:?}", er.to_bytes());
            ensure!(er.to_record(u(v, "id") as u16)[..] == bytes_of(&v["rec"])[..], "record {:?}", er.to_record(u(v, "id") as u16));
            ensure!(body::EndRequest::from_bytes(er.to_bytes()).map_err(|e| e.to_string())? == er, "round trip");
            Ok(())
        },
        "unk" => {
            let ut = body::UnknownType { rtype: u(v, "ty") as u8 };
            ensure!(ut.to_bytes()[..] == bytes_of(&v["body"])[..], "body {:?}", ut.to_bytes());
            ensure!(ut.to_record(u(v, "id") as u16)[..] == bytes_of(&v["rec"])[..], "record {:?}", ut.to_record(u(v, "id") as u16));
            ensure!(body::UnknownType::from_bytes(ut.to_bytes()) == ut, "round trip");
            Ok(())
        },
        "exit" => {
            let app: [u8; 4] = bytes_of(&v["app"]).try_into().map_err(|_| "app")?;
            let st = match s(v, "kind") {
                "complete" => ExitStatus::Complete(u32::from_be_bytes(app)),
                "overloaded" => ExitStatus::Overloaded,
                "unknownrole" => ExitStatus::UnknownRole,
                o => return Err(format!("kind {o}")),
            };
            let er = body::EndRequest::from(st);
            ensure!(er.app_status.to_be_bytes()[..] == bytes_of(&v["eapp"])[..] && u64::from(u8::from(er.protocol_status)) == u(v, "pstat"),
                "EndRequest::from({st:?}) = {er:?}, specification app {:?} status {}", v["eapp"], u(v, "pstat"));
            // the EndRequest part of the specification's epilogue is the record encoder's output
            let epi = bytes_of(&v["epi"]);
            ensure!(epi[epi.len() - 16..] == er.to_record(u(v, "id") as u16)[..], "epilogue's EndRequest record differs");
            if s(v, "kind") == "complete" && app == *b"ABRT" { ensure!(st == ExitStatus::ABORT, "ABORT constant"); }
            if s(v, "kind") == "complete" && app == [0; 4] { ensure!(st == ExitStatus::SUCCESS && st == ExitStatus::default(), "SUCCESS constant"); }
            Ok(())
        },
        "gvr" => {
            // the set is built the way a query builds it - by name; which bit a name occupies is the implementation's business
            let mut vars = fcgi::ProtocolVariables::empty();
            for x in v["vars"].as_array().ok_or("vars")? {
                let name: &[u8] = match x.as_u64().unwrap_or(0) { 1 => b"FCGI_MAX_CONNS", 2 => b"FCGI_MAX_REQS", 4 => b"FCGI_MPXS_CONNS", _ => return Err("variable code".into()) };
                vars |= fcgi::ProtocolVariables::parse_name(name).map_err(|_| format!("{} is not recognised", String::from_utf8_lossy(name)))?;
            }
            let digits: String = v["digits"].as_array().ok_or("digits")?.iter().map(|d| char::from(b'0' + d.as_u64().unwrap_or(0) as u8)).collect();
            let limit: usize = digits.parse().map_err(|e| format!("limit {digits}: {e}"))?;
            let config = Config::with_conns(limit.try_into().map_err(|_| "zero limit")?);
            let pre = vec![0x7d; u(v, "prefill") as usize];
            let want = bytes_of(&v["bytes"]);
            let mut heap = pre.clone();
            let n = vars.write_response(&mut heap, &config);
            ensure!(n == want.len(), "reported {n} bytes, specification {}", want.len());
            ensure!(heap[..pre.len()] == pre[..], "existing buffer contents changed");
            ensure!(heap[pre.len()..] == want[..], "Vec target: {:?}, specification {want:?}", &heap[pre.len()..]);
            ensure!(n <= fcgi::ProtocolVariables::RESPONSE_LEN, "longer than the advertised maximum");
            let mut stack = smallvec::SmallVec::<[u8; 128]>::from_slice(&pre);
            let n2 = vars.write_response(&mut stack, &config);
            ensure!(n2 == n && stack[..] == heap[..], "inline-vector target differs from Vec target");
            Ok(())
        },
        "abuf" => {
            let mut config = Config::with_conns(1.try_into().map_err(|_| "nz")?);
            config.buffer_size = u(v, "n") as usize;
            let mut p = fastcgi_server::parser::request::Parser::new(&config);
            let got = p.input_buffer().len();
            ensure!(got as u64 == u(v, "b"), "effective buffer {got} for configured {}, specification {}", u(v, "n"), u(v, "b"));
            Ok(())
        },
        o => Err(format!("unknown vector type {o}")),
    }
}

fn nontrivial(v: &Value) -> bool {
    match s(v, "t") {
        "vi.enc" => u(v, "v") >= 1,
        "vi.dec" | "hd.dec" | "begin.dec" | "end.dec" => true,
        "nv.dec" | "nv.rt" => !bytes_of(&v["bytes"]).is_empty(),
        _ => true,
    }
}

pub fn run_vectors(prop: &str, input: impl BufRead, log: Option<std::fs::File>, rep: &mut Report) {
    for_each_vector(input, log, |v| {
        let t = s(&v, "t").to_string();
        rep.count(&t, &v.to_string(), nontrivial(&v));
        rep.sample(&t, 1, || v.clone());
        if !rep.too_many_violations() {
            check_vector(rep, prop, &v);
        }
    });
}

/// C15 thorough: all 2^31 values and all 2^32 conversion inputs against the
/// mirror of the specification's operators (validated on the TLC vectors).
pub fn sweep_varint(rep: &mut Report, threads: u32, shift: u32) {
    use std::sync::atomic::{AtomicU64, Ordering};
    use std::sync::Mutex;
    // shift > 0 subsamples (every 2^shift-th block) for the quick tier
    let bad: Mutex<Vec<(u32, String)>> = Mutex::new(Vec::new());
    let done = AtomicU64::new(0);
    std::thread::scope(|sc| {
        for t in 0..threads {
            let bad = &bad; let done = &done;
            sc.spawn(move || {
                let mut local = 0u64;
                let blocks = 1u64 << 16; // blocks of 2^16 values
                let mut blk = u64::from(t);
                while blk < blocks {
                    if shift == 0 || blk % (1 << shift) == 0 || blk >= blocks - 2 || blk == (blocks / 2) || blk == (blocks / 2 - 1) {
                        for lo in 0..=0xffffu32 {
                            let x = ((blk as u32) << 16) | lo;
                            let r = VarInt::try_from(x);
                            let ok = x <= 0x7fff_ffff;
                            if r.is_ok() != ok {
                                bad.lock().unwrap().push((x, format!("try_from({x}) ok={}", r.is_ok())));
                                continue;
                            }
                            if let Ok(vi) = r {
                                let mut buf = [0u8; 8];
                                let n = match vi.write(&mut buf[..]) { Ok(n) => n, Err(e) => { bad.lock().unwrap().push((x, e.to_string())); continue } };
                                let (m, ml) = enc_mirror(x);
                                if n != ml || buf[..n] != m[..ml] {
                                    bad.lock().unwrap().push((x, format!("encoded {:?}, specification {:?}", &buf[..n], &m[..ml])));
                                    continue;
                                }
                                // decoding with one trailing byte consumes exactly the encoding
                                buf[n] = 0xa5;
                                let mut cur = &buf[..n + 1];
                                match VarInt::read(&mut cur) {
                                    Ok(back) if back == vi && cur.len() == 1 => {},
                                    o => bad.lock().unwrap().push((x, format!("decode(encode({x})) = {o:?}, {} bytes left", cur.len()))),
                                }
                                // the four-byte form of every value (legal also for small ones) decodes to it
                                let mut four = x.to_be_bytes(); four[0] |= 0x80;
                                match VarInt::read(&four[..]) {
                                    Ok(back) if u32::from(back) == x => {},
                                    o => bad.lock().unwrap().push((x, format!("four-byte form of {x} decodes to {o:?}"))),
                                }
                                if n == 4 {
                                    for k in 1..4 {
                                        if VarInt::read(&buf[..k]).map_err(|e| e.kind()) != Err(std::io::ErrorKind::UnexpectedEof) {
                                            bad.lock().unwrap().push((x, format!("truncation to {k} bytes of {x} does not fail with unexpected-EOF")));
                                        }
                                    }
                                }
                            }
                            local += 1;
                        }
                    }
                    blk += u64::from(threads);
                }
                done.fetch_add(local, Ordering::Relaxed);
            });
        }
    });
    let n = done.load(std::sync::atomic::Ordering::Relaxed);
    rep.evaluations += n;
    rep.nontrivial += n;
    rep.set("sweep_values", json!(n));
    rep.set("sweep_exhaustive", json!(shift == 0));
    let bad = bad.into_inner().unwrap();
    for (x, what) in bad.into_iter().take(3) {
        rep.violation("C15", &format!("sweep: {what}"), json!({"kind": "varint-sweep", "value": x}));
    }
}

/// C06 size rule: the effective buffer for every configured size up to 70000 and
/// around every power of two up to `max`, against the mirror of Codec!AlignedBuf.
pub fn sweep_bufsize(rep: &mut Report, max: usize) {
    let rule = |n: usize| if n <= 24 { 24 } else { (n + 7) / 8 * 8 };
    let mut ns: Vec<usize> = (0..=70000.min(max)).collect();
    let mut p = 1usize;
    while p <= max { for d in 0..=17 { if p + d <= max + 17 { ns.push(p + d); } if p > d { ns.push(p - d); } } p *= 2; }
    for &k in &[8192usize, 65536, 1 << 20] { if k <= max { ns.push(k); } }
    ns.sort_unstable(); ns.dedup();
    let mut config = Config::with_conns(1.try_into().expect("nz"));
    for n in ns {
        config.buffer_size = n;
        let mut p = fastcgi_server::parser::request::Parser::new(&config);
        let got = p.input_buffer().len();
        rep.count("abuf-sweep", &n, n > 0);
        if got != rule(n) || got % 8 != 0 || got < n || got < 24 {
            rep.violation("C06", &format!("effective buffer {got} for configured size {n}, rule gives {}", rule(n)), json!({"kind": "bufsize", "n": n}));
            if rep.too_many_violations() { break; }
        }
    }
    rep.sample("abuf-sweep", 1, || json!({"n": 8191, "effective": rule(8191)}));
}

// ---------------------------------------------------------------------------
// C19 / C20 vectors

/// Writes the reason phrase of every status code 100..999 (http crate's table) as ndjson for MC_Response.
pub fn dump_reasons(path: &std::path::Path) {
    use std::io::Write;
    let mut f = std::fs::File::create(path).unwrap_or_else(|e| { eprintln!("cannot create {}: {e}", path.display()); std::process::exit(2) });
    for code in 100u16..=999 {
        let st = http::StatusCode::from_u16(code).expect("status code in range");
        let reason = st.canonical_reason().unwrap_or("Custom");
        writeln!(f, "{}", json!({"code": code, "reason": reason.as_bytes()})).expect("write");
    }
}

/// Names for MC_VarName: every interned name (read from the crate's source) plus boundary lengths.
pub fn dump_names(path: &std::path::Path, limit: usize) {
    use std::io::Write;
    let src = std::fs::read_to_string("/repo/src/cgi/intern.rs").unwrap_or_default();
    let mut names: Vec<String> = Vec::new();
    let mut in_enum = false;
    for line in src.lines() {
        let t = line.trim();
        if t.starts_with("pub enum StaticVarName") { in_enum = true; continue; }
        if in_enum {
            if t.starts_with('}') { break; }
            if let Some(n) = t.strip_suffix(',') { if !n.is_empty() && n.chars().all(|c| c.is_ascii_uppercase() || c.is_ascii_digit() || c == '_') { names.push(n.to_string()); } }
        }
    }
    if names.len() < 50 {
        // the enum moved or is laid out differently: the property does not depend on WHICH names are interned, so the
        // vectors fall back to standard CGI / HTTP names (interned or not, they must behave like any other name)
        eprintln!("NOTE: could not read the interned names from intern.rs, using a built-in list of standard names");
        names = ["AUTH_TYPE", "CONTENT_LENGTH", "CONTENT_TYPE", "GATEWAY_INTERFACE", "PATH_INFO", "PATH_TRANSLATED", "QUERY_STRING", "REMOTE_ADDR",
                 "REMOTE_HOST", "REMOTE_IDENT", "REMOTE_USER", "REQUEST_METHOD", "SCRIPT_NAME", "SERVER_NAME", "SERVER_PORT", "SERVER_PROTOCOL",
                 "SERVER_SOFTWARE", "HTTP_ACCEPT", "HTTP_ACCEPT_ENCODING", "HTTP_ACCEPT_LANGUAGE", "HTTP_AUTHORIZATION", "HTTP_CACHE_CONTROL",
                 "HTTP_CONNECTION", "HTTP_COOKIE", "HTTP_HOST", "HTTP_IF_MODIFIED_SINCE", "HTTP_IF_NONE_MATCH", "HTTP_ORIGIN", "HTTP_REFERER",
                 "HTTP_USER_AGENT", "HTTP_X_FORWARDED_FOR", "HTTP_X_FORWARDED_PROTO", "DOCUMENT_ROOT", "REQUEST_URI", "SCRIPT_FILENAME", "HTTPS",
                 "REMOTE_PORT", "SERVER_ADDR", "REDIRECT_STATUS", "HTTP_UPGRADE_INSECURE_REQUESTS"].iter().map(|s| (*s).to_string()).collect();
    }
    let step = (names.len() / limit.max(1)).max(1);
    let mut out: Vec<String> = names.iter().step_by(step).cloned().collect();
    for len in [1usize, 2, 15, 16, 17, 31, 32, 33, 48] { out.push((0..len).map(|i| char::from(b'A' + ((i * 5 + len) % 26) as u8)).collect()); }
    out.push("x-Custom-Header_1".into());
    // bytes right next to the letter ranges (an off-by-one in a case fold shows only there)
    for n in ["X_VAR[", "Q@Z", "a{b`"] { out.push(n.into()); }
    let mut f = std::fs::File::create(path).unwrap_or_else(|e| { eprintln!("cannot create {}: {e}", path.display()); std::process::exit(2) });
    for n in out { writeln!(f, "{}", json!({"n": n.as_bytes()})).expect("write"); }
}

/// A hasher that records the calls it receives.
#[derive(Default)]
struct RecHasher { writes: Vec<Vec<u8>> }
impl std::hash::Hasher for RecHasher {
    fn finish(&self) -> u64 { 0 }
    fn write(&mut self, bytes: &[u8]) { self.writes.push(bytes.to_vec()); }
}

fn hash_calls<T: std::hash::Hash + ?Sized>(x: &T) -> Vec<Vec<u8>> { let mut h = RecHasher::default(); x.hash(&mut h); h.writes }
fn std_hash<T: std::hash::Hash + ?Sized>(x: &T) -> u64 { use std::hash::Hasher; let mut h = std::collections::hash_map::DefaultHasher::new(); x.hash(&mut h); h.finish() }

fn ord_str(o: std::cmp::Ordering) -> &'static str { match o { std::cmp::Ordering::Less => "lt", std::cmp::Ordering::Equal => "eq", std::cmp::Ordering::Greater => "gt" } }

pub fn check_name_vector(v: &Value) -> (Vec<String>, Vec<String>) {
    use fastcgi_server::cgi::{OwnedVarName, VarName};
    use std::borrow::{Borrow, Cow};
    let mut mm = Vec::new();
    let mut drift = Vec::new();
    let (a, b) = (bytes_of(&v["a"]), bytes_of(&v["b"]));
    let (Ok(sa), Ok(sb)) = (String::from_utf8(a.clone()), String::from_utf8(b.clone())) else { return (mm, drift) }; // not a &str: outside the types' domain
    let (va, vb) = (VarName::new(&sa), VarName::new(&sb));
    let eq = crate::tlcin::b(v, "eq");
    let cmp = s(v, "cmp");
    if (va == vb) != eq { mm.push(format!("VarName {sa:?} == {sb:?} is {}, specification {eq}", va == vb)); }
    if ord_str(va.cmp(vb)) != cmp { mm.push(format!("VarName {sa:?} cmp {sb:?} is {}, specification {cmp}", ord_str(va.cmp(vb)))); }
    let want_ha: Vec<Vec<u8>> = v["ha"].as_array().map(|x| x.iter().map(bytes_of).collect()).unwrap_or_default();
    let (ha, hb) = (hash_calls(va), hash_calls(vb));
    if eq && ha != hb { mm.push(format!("equal names {sa:?} / {sb:?} feed different call sequences to a hasher")); }
    if eq && std_hash(va) != std_hash(vb) { mm.push(format!("equal names {sa:?} / {sb:?} hash differently")); }
    if ha != want_ha { drift.push(format!("hash writes of {sa:?} are {ha:?}, modelled {want_ha:?}")); }
    // owned names through every constructor agree with the borrowed type
    let ctors: Vec<(&str, OwnedVarName, bool)> = vec![
        ("From<&str>", OwnedVarName::from(sa.as_str()), false),
        ("From<String>", OwnedVarName::from(sa.clone()), true),
        ("From<Box<str>>", OwnedVarName::from(sa.clone().into_boxed_str()), true),
        ("From<Cow::Borrowed>", OwnedVarName::from(Cow::Borrowed(sa.as_str())), false),
        ("From<Cow::Owned>", OwnedVarName::from(Cow::<str>::Owned(sa.clone())), true),
        ("from_mut_str", { let mut t = sa.clone(); OwnedVarName::from_mut_str(&mut t) }, true),
        ("ToOwned", va.to_owned(), false),
        ("From<&VarName>", OwnedVarName::from(va), false),
    ];
    let upper = String::from_utf8(bytes_of(&v["ua"])).unwrap_or_default();
    let ob = OwnedVarName::from(sb.as_str());
    for (name, o, normalising) in &ctors {
        let bor: &VarName = o.borrow();
        if bor != va || ord_str(bor.cmp(va)) != "eq" { mm.push(format!("{name}({sa:?}) does not equal the borrowed name")); }
        if hash_calls(o) != ha { mm.push(format!("{name}({sa:?}) hashes differently from the borrowed name")); }
        if (*o == ob) != eq { mm.push(format!("{name}({sa:?}) == OwnedVarName({sb:?}) is {}, specification {eq}", *o == ob)); }
        if ord_str(o.cmp(&ob)) != cmp { mm.push(format!("{name}({sa:?}) cmp OwnedVarName({sb:?}) is {}, specification {cmp}", ord_str(o.cmp(&ob)))); }
        if *normalising && o.as_ref() != upper { mm.push(format!("{name}({sa:?}) reads back as {:?}, specification: the ASCII-uppercased string {upper:?}", o.as_ref())); }
        if !normalising && !o.as_ref().eq_ignore_ascii_case(&sa) { mm.push(format!("{name}({sa:?}) reads back as {:?}", o.as_ref())); }
    }
    // map lookup by any spelling
    let mut map = std::collections::HashMap::new();
    map.insert(OwnedVarName::from(sa.clone()), 1u8);
    if map.contains_key(vb) != eq { mm.push(format!("map with key {sa:?} looked up by {sb:?}: found = {}, specification {eq}", map.contains_key(vb))); }
    // interned names read back canonically
    if let Ok(st) = upper.parse::<fastcgi_server::cgi::StaticVarName>() {
        let o = OwnedVarName::from(st);
        if o.as_ref() != upper { mm.push(format!("interned name reads back as {:?}, canonical spelling {upper:?}", o.as_ref())); }
        let bor: &VarName = o.borrow();
        if bor != va { mm.push(format!("interned {upper:?} does not equal {sa:?}")); }
        if hash_calls(&o) != ha { mm.push(format!("interned {upper:?} hashes differently from {sa:?}")); }
        let via: &VarName = st.into();
        if via != va { mm.push(format!("StaticVarName -> &VarName for {upper:?} does not equal {sa:?}")); }
    }
    // HTTP header name mapping (header names are lower case, ASCII, token characters)
    let lower = sa.to_ascii_lowercase();
    if let Ok(hn) = http::header::HeaderName::from_bytes(lower.as_bytes()) {
        let o = OwnedVarName::from(&hn);
        let want = String::from_utf8(bytes_of(&v["hv"])).unwrap_or_default();
        if o.as_ref() != want { mm.push(format!("header {lower:?} maps to {:?}, specification {want:?}", o.as_ref())); }
    }
    (mm, drift)
}

fn response_into(v: &Value, w: &mut dyn std::io::Write) -> std::io::Result<usize> {
    use fastcgi_server::cgi::response;
    if s(v, "t") == "redir" {
        let loc = String::from_utf8(bytes_of(&v["loc"])).unwrap_or_default();
        response::simple_redirect(w, &loc)
    } else {
        let code = http::StatusCode::from_u16(u(v, "code") as u16).expect("code");
        let hs: Vec<(Vec<u8>, Vec<u8>)> = v["hs"].as_array().map(|a| a.iter().map(|p| (bytes_of(&p[0]), bytes_of(&p[1]))).collect()).unwrap_or_default();
        response::write_headers(w, code, hs.iter().map(|(n, v)| (n.as_slice(), v.as_slice())))
    }
}

pub fn check_response_vector(v: &Value) -> Vec<String> {
    use fastcgi_server::cgi::response;
    let mut mm = Vec::new();
    let want = bytes_of(&v["bytes"]);
    let cap = u(v, "cap") as usize;
    let ok = crate::tlcin::b(&v["w"], "ok");
    let n = u(&v["w"], "n") as usize;
    let mut dst = vec![0xEEu8; cap];
    let res = if s(v, "t") == "redir" {
        let loc = String::from_utf8(bytes_of(&v["loc"])).unwrap_or_default();
        let r = response::simple_redirect(&mut dst[..], &loc);
        if cap >= want.len() { let mut vec = Vec::new(); let rv = response::simple_redirect(&mut vec, &loc); if vec != want || rv.as_ref().ok() != Some(&want.len()) { mm.push(format!("redirect into Vec gives {vec:?} / {rv:?}, specification {want:?}")); } }
        r
    } else {
        let code = http::StatusCode::from_u16(u(v, "code") as u16).expect("code");
        let hs: Vec<(Vec<u8>, Vec<u8>)> = v["hs"].as_array().map(|a| a.iter().map(|p| (bytes_of(&p[0]), bytes_of(&p[1]))).collect()).unwrap_or_default();
        let it = hs.iter().map(|(n, v)| (n.as_slice(), v.as_slice()));
        let r = response::write_headers(&mut dst[..], code, it.clone());
        if cap >= want.len() { let mut vec = Vec::new(); let rv = response::write_headers(&mut vec, code, it); if vec != want || rv.as_ref().ok() != Some(&want.len()) { mm.push(format!("headers into Vec give {:?} / {rv:?}, specification {:?}", String::from_utf8_lossy(&vec), String::from_utf8_lossy(&want))); } }
        // http_headers agrees for header lists the http crate accepts
        if cap >= want.len() {
            let mut b = http::Response::builder().status(code);
            let mut usable = true;
            for (n, val) in &hs { match (http::header::HeaderName::from_bytes(n), http::header::HeaderValue::from_bytes(val)) { (Ok(hn), Ok(hv)) => b = b.header(hn, hv), _ => usable = false } }
            if usable && hs.len() <= 1 { if let Ok(resp) = b.body(()) { let mut vec = Vec::new(); let rv = response::http_headers(&mut vec, &resp); if vec != want || rv.ok() != Some(want.len()) { mm.push(format!("http_headers gives {:?}, specification {:?}", String::from_utf8_lossy(&vec), String::from_utf8_lossy(&want))); } } }
        }
        r
    };
    // destinations that accept only part of what they are offered (plain and gathered short writes)
    if cap >= want.len() {
        for chunk in [1usize, 2, 7, 9, 13] {
            for gathered in [false, true] {
                let (out, rv) = if gathered {
                    let mut w = ShortVectored { out: Vec::new(), chunk };
                    let rv = response_into(v, &mut w);
                    (w.out, rv)
                } else {
                    let mut w = ShortWriter { out: Vec::new(), chunk };
                    let rv = response_into(v, &mut w);
                    (w.out, rv)
                };
                if out != want || rv.as_ref().ok() != Some(&want.len()) {
                    mm.push(format!("destination accepting {chunk} bytes per {} call: wrote {:?} and returned {rv:?}, specification {:?} / {}",
                        if gathered { "gathered write" } else { "write" }, String::from_utf8_lossy(&out), String::from_utf8_lossy(&want), want.len()));
                    break;
                }
            }
        }
    }
    match res {
        Ok(k) => {
            if !ok { mm.push(format!("reported success ({k} bytes) into a destination of {cap} bytes, specification: fails ({} bytes needed)", want.len())); }
            else if k != n || dst[..k.min(cap)] != want[..] { mm.push(format!("wrote {:?} and returned {k}, specification {:?} / {n}", String::from_utf8_lossy(&dst[..k.min(cap)]), String::from_utf8_lossy(&want))); }
        },
        Err(_) => if ok { mm.push(format!("failed although the destination has room ({cap} >= {})", want.len())); },
    }
    mm
}

pub fn run_cgi_vectors(prop: &str, input: impl BufRead, log: Option<std::fs::File>, rep: &mut Report) {
    for_each_vector(input, log, |v| {
        let t = s(&v, "t").to_string();
        rep.count(&t, &v.to_string(), true);
        rep.sample(&t, 2, || v.clone());
        if rep.too_many_violations() { return; }
        let res = catch_unwind(AssertUnwindSafe(|| if t == "vn" { check_name_vector(&v) } else { (check_response_vector(&v), vec![]) }));
        match res {
            Ok((mm, drift)) => {
                for what in mm { rep.violation(prop, &what, json!({"kind": "cgi-vector", "vector": v})); }
                for d in drift { rep.drift(d); }
            },
            Err(_) => rep.violation(prop, "panic in code under test", json!({"kind": "cgi-vector", "vector": v})),
        }
    });
}
