//! The abstract wire of spec/Wire.tla on the Rust side: data types, the
//! encoder (abstract wire -> concrete bytes, used when TLC-generated cases are
//! replayed on the code) and the lexer (arbitrary bytes -> abstract wire, used
//! when executions of the code are validated against the specification).
//!
//! Both directions share `track_sessions`, the 30-line restatement of which
//! Params records form one stream (a session starts at a BeginRequest that the
//! request parser's Header mode accepts and ends at its empty Params record,
//! its AbortRequest, or a fatal header).

use serde::{Deserialize, Serialize};

pub const T_BEGIN: u8 = 1;
pub const T_ABORT: u8 = 2;
pub const T_PARAMS: u8 = 4;
pub const T_STDIN: u8 = 5;
pub const T_DATA: u8 = 8;
pub const T_GETVALUES: u8 = 9;

/// Announced lengths are clamped because TLC integers are 32-bit.
pub const CLAMP: u64 = 1_000_000_000;

#[derive(Debug, Clone, Serialize, Deserialize, PartialEq, Eq)]
pub struct GvPair {
    pub e: u64,
    pub var: u8,
}

#[derive(Debug, Clone, Serialize, Deserialize, PartialEq, Eq)]
pub struct Rec {
    pub off: u64,
    pub ver: u8,
    pub ty: u8,
    pub id: u32,
    pub clen: u64,
    pub plen: u64,
    pub role: u32,
    pub flags: u8,
    pub gv: Vec<GvPair>,
}

impl Rec {
    pub fn end(&self) -> u64 { self.off + 8 + self.clen + self.plen }
}

#[derive(Debug, Clone, Serialize, Deserialize, PartialEq, Eq)]
#[allow(non_snake_case)]
pub struct Pair {
    pub s: u64,
    pub nEnc: u8,
    pub vEnc: u8,
    pub n: u64,
    pub v: u64,
    pub key: u32,
}

impl Pair {
    pub fn head_len(&self) -> u64 { u64::from(self.nEnc) + u64::from(self.vEnc) }
    pub fn end(&self) -> u64 { self.s + self.head_len() + self.n + self.v }
    pub fn name_at(&self) -> u64 { self.s + self.head_len() }
    pub fn value_at(&self) -> u64 { self.s + self.head_len() + self.n }
}

#[derive(Debug, Clone, Serialize, Deserialize, PartialEq, Eq)]
pub struct Wire {
    pub recs: Vec<Rec>,
    pub len: u64,
    pub pairs: Vec<Vec<Pair>>,
}

// ---------------------------------------------------------------------------
// Session tracking (trusted base shared by encoder and lexer)

/// For every record: `Some((session index, stream offset))` if its body belongs
/// to the Params stream of a session.  Also returns per session its stream length
/// and the offset of the BeginRequest that opened it.
///
/// `phases` are the wire offsets at which a request parser starts in Header mode:
/// 0, and every point at which a stream parser was converted back
/// (`into_request_parser`).  Between the end of a session's Params stream and the
/// next phase start the bytes belong to the stream parser and open no session.
pub fn track_sessions(recs: &[Rec], phases: &[u64]) -> (Vec<Option<(usize, u64)>>, Vec<u64>, Vec<u64>) {
    #[derive(PartialEq)]
    enum Mode { Header, Params(u32), Stream }
    let mut owner = vec![None; recs.len()];
    let mut slens: Vec<u64> = Vec::new();
    let mut begins: Vec<u64> = Vec::new();
    let mut mode = Mode::Stream;
    let mut next_phase = 0usize;
    for (i, r) in recs.iter().enumerate() {
        while next_phase < phases.len() && phases[next_phase] <= r.off {
            if phases[next_phase] == r.off { mode = Mode::Header; }
            next_phase += 1;
        }
        if mode == Mode::Stream { continue; }
        if r.ver != 1 {
            mode = Mode::Stream; // fatal header: nothing after it is interpreted by this parser
            continue;
        }
        if !(1..=11).contains(&r.ty) || (r.ty == T_GETVALUES && r.id == 0) {
            continue;
        }
        match mode {
            Mode::Header => {
                if r.ty == T_BEGIN {
                    if r.clen != 8 { mode = Mode::Stream; continue; }
                    if !(1..=3).contains(&r.role) { continue; }
                    if r.id == 0 { mode = Mode::Stream; continue; }
                    mode = Mode::Params(r.id);
                    slens.push(0);
                    begins.push(r.off);
                }
            },
            Mode::Params(id) => {
                if r.ty == T_PARAMS && r.id == id {
                    if r.clen == 0 {
                        mode = Mode::Stream;
                    } else {
                        let k = slens.len() - 1;
                        owner[i] = Some((k, slens[k]));
                        slens[k] += r.clen;
                    }
                } else if r.ty == T_ABORT && r.id == id {
                    mode = Mode::Header;
                }
            },
            Mode::Stream => {},
        }
    }
    (owner, slens, begins)
}

// ---------------------------------------------------------------------------
// Encoder

/// Keyed pseudo-random byte for an absolute offset (opaque payload, padding,
/// reserved bytes): a wrong interval is a byte mismatch with high probability.
pub fn prf(seed: u64, off: u64) -> u8 {
    let mut x = seed ^ off.wrapping_mul(0x9e37_79b9_7f4a_7c15);
    x ^= x >> 29;
    x = x.wrapping_mul(0xbf58_476d_1ce4_e5b9);
    x ^= x >> 32;
    (x & 0xff) as u8
}

/// Concrete 16-bit request id for an abstract id (0 stays 0, injective otherwise).
pub fn map_id(seed: u64, id: u32) -> u16 {
    if id == 0 { return 0; }
    let base = 1 + (seed % 251) as u32;
    ((id * 257 + base * 64) % 65535 + 1) as u16
}

pub const VAR_NAMES: [(u8, &str); 3] = [(1, "FCGI_MAX_CONNS"), (2, "FCGI_MAX_REQS"), (4, "FCGI_MPXS_CONNS")];

pub fn var_name(bit: u8) -> Option<&'static str> {
    VAR_NAMES.iter().find(|(b, _)| *b == bit).map(|(_, n)| *n)
}

fn push_len(out: &mut Vec<u8>, enc: u8, len: u64) {
    if enc == 1 {
        assert!(len < 128, "one-byte length prefix cannot carry {len}");
        out.push(len as u8);
    } else {
        let mut e = (len as u32).to_be_bytes();
        e[0] |= 0x80;
        out.extend(e);
    }
}

/// Name bytes for a key: distinct keys give distinct normalised names of the same
/// length; `variant` selects the spelling (case pattern, or which invalid byte for
/// the non-UTF-8 key class `key % 4 == 3`).
pub fn name_bytes(key: u32, n: u64, variant: u64) -> Vec<u8> {
    let mut out = Vec::with_capacity(n as usize);
    for i in 0..n {
        let letter = b'A' + ((key as u64 * 7 + i * 3) % 26) as u8;
        let lower = match variant % 3 { 0 => false, 1 => true, _ => i % 2 == 0 };
        out.push(if lower { letter.to_ascii_lowercase() } else { letter });
    }
    if key % 8 == 3 && n >= 1 {
        // lone continuation / invalid byte: lossy decoding turns either into U+FFFD
        out[0] = if variant % 2 == 0 { 0xff } else { 0xfe };
    }
    if key % 8 == 5 && n >= 3 {
        // a valid two-byte sequence (E-acute) inside the name: a cut between its bytes must not change the key
        out[1] = 0xc3;
        out[2] = 0x89;
    }
    if key % 8 == 6 && n >= 3 {
        // a truncated three-byte sequence at the end (lossy decoding gives one U+FFFD for the pair)
        out[(n - 2) as usize] = 0xe2;
        out[(n - 1) as usize] = 0x82;
    }
    out
}

pub struct Encoded {
    pub bytes: Vec<u8>,
    /// per session: the bytes of its Params stream (as far as the wire carries them)
    pub streams: Vec<Vec<u8>>,
}

pub fn encode(w: &Wire, seed: u64) -> Result<Encoded, String> {
    encode_phased(w, seed, &[0])
}

pub fn encode_phased(w: &Wire, seed: u64, phases: &[u64]) -> Result<Encoded, String> {
    let (owner, slens, _) = track_sessions(&w.recs, phases);
    // Params streams from the pair lists
    let mut streams: Vec<Vec<u8>> = Vec::new();
    for (k, &slen) in slens.iter().enumerate() {
        let mut s = Vec::new();
        let empty = Vec::new();
        let pairs = w.pairs.get(k).unwrap_or(&empty);
        for (j, p) in pairs.iter().enumerate() {
            if p.s != s.len() as u64 {
                return Err(format!("session {k}: pair {j} starts at {} but the stream has {} bytes", p.s, s.len()));
            }
            if s.len() as u64 >= slen { break; }
            push_len(&mut s, p.nEnc, p.n);
            push_len(&mut s, p.vEnc, p.v);
            let room = slen.saturating_sub(s.len() as u64);
            let name = name_bytes(p.key, p.n.min(room), j as u64 + seed);
            s.extend(&name);
            let room = slen.saturating_sub(s.len() as u64);
            for i in 0..p.v.min(room) {
                s.push(prf(seed ^ 0x5a5a, (k as u64) << 32 | (p.s + p.head_len() + p.n + i)));
            }
        }
        if (s.len() as u64) < slen {
            return Err(format!("session {k}: pair list covers {} of {slen} stream bytes", s.len()));
        }
        s.truncate(slen as usize);
        streams.push(s);
    }

    let mut out: Vec<u8> = Vec::new();
    for (i, r) in w.recs.iter().enumerate() {
        if r.off != out.len() as u64 {
            return Err(format!("record {i} at offset {} but {} bytes encoded", r.off, out.len()));
        }
        let id = map_id(seed, r.id);
        out.push(r.ver);
        out.push(r.ty);
        out.extend(id.to_be_bytes());
        out.extend((r.clen as u16).to_be_bytes());
        out.push(r.plen as u8);
        out.push(prf(seed, r.off + 7)); // reserved byte: arbitrary
        let body_at = out.len() as u64;
        if let Some((k, so)) = owner[i] {
            out.extend(&streams[k][so as usize..(so + r.clen) as usize]);
        } else if r.ty == T_BEGIN && r.clen == 8 {
            out.extend((r.role as u16).to_be_bytes());
            out.push(r.flags);
            for j in 3..8 { out.push(prf(seed, body_at + j)); }
        } else if r.ty == T_GETVALUES && r.ver == 1 && r.id == 0 {
            let mut body = Vec::new();
            let mut prev = 0u64;
            for g in &r.gv {
                let size = g.e - prev;
                prev = g.e;
                let (name, vlen): (Vec<u8>, u64) = match var_name(g.var) {
                    Some(nm) => {
                        let nl = nm.len() as u64;
                        if size < nl + 2 { return Err(format!("GetValues pair of {size} bytes cannot name variable {}", g.var)); }
                        (nm.as_bytes().to_vec(), size - nl - 2)
                    },
                    None => {
                        if size < 2 { return Err("GetValues pair smaller than 2 bytes".into()); }
                        // unknown name: lower-case 'x' run (never equals a protocol variable), no value
                        (vec![b'x'; (size - 2) as usize], 0)
                    },
                };
                if name.len() >= 128 || vlen >= 128 { return Err("GetValues menu pair too long for one-byte prefixes".into()); }
                body.push(name.len() as u8);
                body.push(vlen as u8);
                body.extend(&name);
                for j in 0..vlen { body.push(b'0' + (j % 10) as u8); }
            }
            // trailing bytes: the start of a pair announcing more than remains
            let extra = r.clen - prev;
            if extra == 8 {
                // an incomplete pair (name length 1, value length 200) that reads like the header of an unknown-type record
                body.extend([1, 200, 0, 0, 0, 0, 0, 0]);
            } else {
                for j in 0..extra { body.push(if j < 2 { 127 } else { b'y' }); }
            }
            if extra >= 256 { return Err("trailing GetValues bytes would complete a pair".into()); }
            out.extend(&body);
        } else {
            for j in 0..r.clen { out.push(prf(seed, body_at + j)); }
        }
        let pad_at = out.len() as u64;
        for j in 0..r.plen { out.push(prf(seed ^ 0xa5, pad_at + j)); }
    }
    if (out.len() as u64) < w.len {
        return Err(format!("wire length {} exceeds the encoded records ({})", w.len, out.len()));
    }
    out.truncate(w.len as usize);
    Ok(Encoded { bytes: out, streams })
}

// ---------------------------------------------------------------------------
// Lexer

fn read_len(b: &[u8]) -> Option<(u64, u8)> {
    let f = *b.first()?;
    if f < 128 { return Some((f.into(), 1)); }
    if b.len() < 4 { return None; }
    Some((u64::from(u32::from_be_bytes([f & 0x7f, b[1], b[2], b[3]])), 4))
}

/// Tokenises a GetValues body greedily into complete pairs.
fn lex_gv(body: &[u8]) -> Vec<GvPair> {
    let mut out = Vec::new();
    let mut o = 0usize;
    loop {
        let Some((n, l1)) = read_len(&body[o..]) else { break };
        let Some((v, l2)) = read_len(&body[o + l1 as usize..]) else { break };
        let hl = (l1 + l2) as usize;
        let total = hl as u64 + n + v;
        if (body.len() - o) as u64 >= total {
            let name = &body[o + hl..o + hl + n as usize];
            let var = VAR_NAMES.iter().find(|(_, nm)| nm.as_bytes() == name).map_or(0, |(b, _)| *b);
            o += total as usize;
            out.push(GvPair { e: o as u64, var });
        } else {
            break;
        }
    }
    out
}

/// Interns normalised names (lossy UTF-8, ASCII upper case, computed with `std`).
#[derive(Default)]
pub struct KeyTable {
    pub names: Vec<String>,
}

impl KeyTable {
    pub fn key_of(&mut self, raw: &[u8]) -> u32 {
        let norm = String::from_utf8_lossy(raw).to_ascii_uppercase();
        if let Some(i) = self.names.iter().position(|n| *n == norm) {
            return i as u32;
        }
        self.names.push(norm);
        (self.names.len() - 1) as u32
    }
}

/// Tokenises a Params stream into pairs plus one trailing incomplete pair.
pub fn lex_params(stream: &[u8], keys: &mut KeyTable) -> Vec<Pair> {
    let mut out = Vec::new();
    let mut o = 0usize;
    while o < stream.len() {
        let rest = &stream[o..];
        let n_enc = if rest[0] < 128 { 1u8 } else { 4 };
        let n = read_len(rest).map(|x| x.0);
        let h1 = usize::from(n_enc);
        let v_enc = match rest.get(h1) { Some(&b) if b >= 128 => 4u8, _ => 1 };
        let v = if rest.len() > h1 { read_len(&rest[h1..]).map(|x| x.0) } else { None };
        let hl = h1 + usize::from(v_enc);
        match (n, v) {
            (Some(n), Some(v)) if (rest.len() - hl) as u64 >= n + v => {
                let key = keys.key_of(&rest[hl..hl + n as usize]);
                out.push(Pair { s: o as u64, nEnc: n_enc, vEnc: v_enc, n, v, key });
                o += hl + (n + v) as usize;
            },
            (n, v) => {
                // trailing incomplete pair: fields as far as their bytes exist
                out.push(Pair { s: o as u64, nEnc: n_enc, vEnc: v_enc,
                    n: n.map_or(CLAMP, |x| x.min(CLAMP)), v: v.map_or(CLAMP, |x| x.min(CLAMP)), key: u32::MAX >> 8 });
                break;
            },
        }
    }
    out
}

/// Describes an arbitrary byte string as an abstract wire (one request-parser phase from offset 0).
pub fn lex(bytes: &[u8], keys: &mut KeyTable) -> Wire {
    lex_phased(bytes, keys, &[0])
}

/// Describes a byte string given the offsets at which request parsers start.
pub fn lex_phased(bytes: &[u8], keys: &mut KeyTable, phases: &[u64]) -> Wire {
    let mut recs = Vec::new();
    let mut o = 0usize;
    while bytes.len() - o >= 8 {
        let h = &bytes[o..o + 8];
        let clen = u64::from(u16::from_be_bytes([h[4], h[5]]));
        let plen = u64::from(h[6]);
        let mut r = Rec { off: o as u64, ver: h[0], ty: h[1], id: u32::from(u16::from_be_bytes([h[2], h[3]])),
            clen, plen, role: 0, flags: 0, gv: Vec::new() };
        let body_end = (o + 8 + clen as usize).min(bytes.len());
        let body = &bytes[o + 8..body_end];
        if r.ty == T_BEGIN && body.len() >= 3 {
            r.role = u32::from(u16::from_be_bytes([body[0], body[1]]));
            r.flags = body[2];
        }
        if r.ty == T_GETVALUES && r.id == 0 {
            r.gv = lex_gv(body);
        }
        let bad = r.ver != 1;
        let end = r.end();
        recs.push(r);
        if bad || end as usize >= bytes.len() {
            break; // nothing behind an unknown version is ever framed by either parser
        }
        o = end as usize;
    }
    let (owner, slens, _) = track_sessions(&recs, phases);
    let mut streams: Vec<Vec<u8>> = vec![Vec::new(); slens.len()];
    for (i, r) in recs.iter().enumerate() {
        if let Some((k, _)) = owner[i] {
            let a = (r.off + 8) as usize;
            let b = ((r.off + 8 + r.clen) as usize).min(bytes.len());
            if a < b { streams[k].extend(&bytes[a..b]); }
        }
    }
    let pairs = streams.iter().map(|s| lex_params(s, keys)).collect();
    Wire { recs, len: bytes.len() as u64, pairs }
}
