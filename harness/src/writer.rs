//! Output side (StreamWriter, poll_output, the output mutex): replays MC_Writer
//! behaviours on real StreamWriters obtained from a real Request, one hand-rolled
//! task per writer, polled in the order the specification's behaviour names.

use std::collections::{BTreeSet, HashMap, HashSet};
use std::future::Future;
use std::io;
use std::io::BufRead;
use std::panic::{catch_unwind, AssertUnwindSafe};
use std::pin::Pin;
use std::sync::atomic::{AtomicBool, Ordering};
use std::sync::{Arc, Mutex};
use std::task::{Context, Poll, Wake, Waker};

use fastcgi_server::async_io::{Request, StreamWriter};
use fastcgi_server::protocol as fcgi;
use fastcgi_server::{Config, ExitStatus};
use futures_util::io::{AsyncReadExt, AsyncWriteExt};
use serde::Deserialize;
use serde_json::{json, Value};

use crate::conn::{decode_out, MockIo, Shared, Fault};
use crate::report::Report;
use crate::rp::{hex, reply_bytes, Reply, MAX_CONNS};
use crate::wire;

#[derive(Deserialize, Clone, Debug)]
pub struct WOp { pub op: String, pub n: usize }

#[derive(Deserialize, Clone)]
pub struct CaseLine { pub c: u64, pub progs: Vec<Vec<WOp>>, pub kind3: String }

#[derive(Deserialize, Clone, Debug)]
pub struct OutEnt { pub t: usize, pub rec: usize, pub total: usize, pub len: usize }

#[derive(Deserialize)]
pub struct BehLine { pub c: u64, pub h: Vec<Vec<Value>>, pub out: Vec<OutEnt> }

const OWN_ID: u16 = 0x0102;

fn data_byte(seed: u64, t: usize, op: usize, i: usize) -> u8 { wire::prf(seed ^ 0x99, ((t as u64) << 48) | ((op as u64) << 32) | i as u64) }

async fn writer_task(mut w: StreamWriter<MockIo>, prog: Vec<WOp>, seed: u64, t: usize) -> io::Result<()> {
    for (i, op) in prog.iter().enumerate() {
        match op.op.as_str() {
            "write" => { let data: Vec<u8> = (0..op.n).map(|j| data_byte(seed, t, i + 1, j)).collect(); w.write_all(&data).await?; },
            "flush" => w.flush().await?,
            o => panic!("writer task cannot perform {o}"),
        }
    }
    Ok(())
}

struct Flag(AtomicBool);
impl Wake for Flag { fn wake(self: Arc<Self>) { self.0.store(true, Ordering::SeqCst); } fn wake_by_ref(self: &Arc<Self>) { self.0.store(true, Ordering::SeqCst); } }

pub struct WState { pub case: CaseLine, pub polls: Vec<usize>, pub seed: u64, pub ready: Vec<(usize, bool)>, pub out_at_end: usize, pub shared: Arc<Mutex<Shared>>, pub err: Option<String> }

async fn scenario(req: &mut Request<'_, MockIo, MockIo>, st: Arc<Mutex<WState>>) -> io::Result<ExitStatus> {
    let (case, polls, seed, shared) = { let s = st.lock().expect("lock"); (s.case.clone(), s.polls.clone(), s.seed, s.shared.clone()) };
    let w1 = req.output_stream(fcgi::RecordType::Stdout);
    let w2 = req.output_stream(fcgi::RecordType::Stderr);
    let w3 = w1.clone();
    type Task<'a> = Pin<Box<dyn Future<Output = io::Result<()>> + Send + 'a>>;
    let mut rbuf = [0u8; 4];
    let mut tasks: Vec<Option<Task<'_>>> = Vec::new();
    tasks.push(Some(Box::pin(writer_task(w1, case.progs[0].clone(), seed, 1))));
    tasks.push(Some(Box::pin(writer_task(w2, case.progs[1].clone(), seed, 2))));
    if case.kind3 == "reply" {
        drop(w3);
        tasks.push(Some(Box::pin(async { req.read(&mut rbuf).await.map(|_| ()) })));
    } else {
        tasks.push(Some(Box::pin(writer_task(w3, case.progs[2].clone(), seed, 3))));
    }
    let mut ready: Vec<(usize, bool)> = Vec::new();
    std::future::poll_fn(|_cx| {
        for &t in &polls {
            let flag = Arc::new(Flag(AtomicBool::new(false)));
            let waker: Waker = flag.into();
            let done = match tasks[t - 1].as_mut() {
                Some(f) => f.as_mut().poll(&mut Context::from_waker(&waker)).is_ready(),
                None => true,
            };
            if done { tasks[t - 1] = None; }
            ready.push((t, done));
        }
        Poll::Ready(())
    }).await;
    drop(tasks);
    let mut s = st.lock().expect("lock");
    s.ready = ready;
    s.out_at_end = shared.lock().expect("lock").out.len();
    Ok(ExitStatus::SUCCESS)
}

fn constrain<F>(f: F) -> F
where F: for<'a, 'b> FnMut(&'a mut Request<'b, MockIo, MockIo>) -> futures_util::future::BoxFuture<'a, io::Result<ExitStatus>> { f }

/// Expected bytes of the model's out log.
fn expected_bytes(case: &CaseLine, out: &[OutEnt], seed: u64) -> Vec<u8> {
    let mut v = Vec::new();
    let mut chunk_no: HashMap<(usize, usize), usize> = HashMap::new();
    for e in out {
        let op = &case.progs[e.t - 1][e.rec - 1];
        let mut img = Vec::new();
        if op.op == "reply" {
            img = reply_bytes(&Reply { k: "gvr".into(), a: 1, b: 0 }, 0, MAX_CONNS, false);
        } else {
            let k = chunk_no.entry((e.t, e.rec)).or_insert(0);
            let start = *k * 65535;
            *k += 1;
            let n = (op.n - start).min(65535);
            let pad = (8 - n % 8) % 8;
            img.extend([1, if e.t == 2 { 7 } else { 6 }]);
            img.extend(OWN_ID.to_be_bytes());
            img.extend((n as u16).to_be_bytes());
            img.extend([pad as u8, 0]);
            for j in 0..n { img.push(data_byte(seed, e.t, e.rec, start + j)); }
            img.extend(std::iter::repeat(0).take(pad));
        }
        assert_eq!(img.len(), e.total, "record image length");
        v.extend(&img[..e.len]);
    }
    v
}

pub fn execute(case: &CaseLine, h: &[Vec<Value>], seed: u64) -> Result<(Vec<u8>, Vec<(usize, bool)>), String> {
    // the connection's input: a Responder request (no keep-conn) followed, for the reply producer, by one GetValues query
    let mut bytes = Vec::new();
    let mut r = crate::gen::rng(seed);
    crate::gen::record(&mut bytes, &mut r, 1, OWN_ID, &[0, 1, 0, 0, 0, 0, 0, 0], 0);
    crate::gen::record(&mut bytes, &mut r, 4, OWN_ID, &[], 0);
    if case.kind3 == "reply" { let mut body = Vec::new(); crate::gen::nv(&mut body, b"FCGI_MAX_CONNS", b"", false, false); crate::gen::record(&mut bytes, &mut r, 9, 0, &body, 0); }
    let mut out_off = 0usize;
    let mut wcuts = BTreeSet::new(); let mut wpend = HashSet::new(); let mut polls = Vec::new();
    for ev in h {
        match ev[0].as_str().unwrap_or("") {
            "poll" => polls.push(ev[1].as_u64().unwrap_or(0) as usize),
            "w" => { out_off += ev[2].as_u64().unwrap_or(0) as usize; wcuts.insert(out_off); },
            "wp" => { wpend.insert(out_off); },
            _ => {},
        }
    }
    let shared = Arc::new(Mutex::new(Shared { wire: bytes, gates: vec![], close: false, fault: Fault { k: "none".into(), at: 0 }, in_read: 0,
        rcuts: BTreeSet::new(), rpend: HashSet::new(), out: Vec::new(), wcuts, wpend, self_wake: false, stop_at: HashSet::new(), stop_now: false,
        parked_on_read: false, write_failed: false, wrote_after_failure: false, reads: 0, writes: 0, random: None, events: Vec::new(), unsteered: None }));
    let mut config = Config::with_conns(MAX_CONNS.try_into().expect("nz"));
    config.buffer_size = 64;
    let runner = config.async_runner();
    let token = { let fut = runner.get_token(); futures_util::pin_mut!(fut);
        let w: Waker = Arc::new(Flag(AtomicBool::new(false))).into();
        match fut.poll(&mut Context::from_waker(&w)) { Poll::Ready(t) => t, Poll::Pending => return Err("no token".into()) } };
    let st = Arc::new(Mutex::new(WState { case: case.clone(), polls, seed, ready: Vec::new(), out_at_end: 0, shared: shared.clone(), err: None }));
    let st2 = st.clone();
    let handler = constrain(move |req| { let s = st2.clone(); Box::pin(async move { scenario(req, s).await }) });
    let mut fut = Box::pin(token.run(MockIo(shared.clone()), MockIo(shared.clone()), handler));
    let waker: Waker = Arc::new(Flag(AtomicBool::new(false))).into();
    let mut polls_done = 0;
    loop {
        polls_done += 1;
        if polls_done > 1000 { return Err("connection task does not finish".into()); }
        if fut.as_mut().poll(&mut Context::from_waker(&waker)).is_ready() { break; }
        let again = std::mem::take(&mut shared.lock().expect("lock").self_wake);
        if !again { return Err("connection task suspended outside the scenario".into()); }
    }
    let s = st.lock().expect("lock");
    let out = shared.lock().expect("lock").out[..s.out_at_end].to_vec();
    Ok((out, s.ready.clone()))
}

pub fn compare(case: &CaseLine, b: &BehLine, seed: u64) -> Vec<String> {
    let mut mm = Vec::new();
    let res = catch_unwind(AssertUnwindSafe(|| execute(case, &b.h, seed)));
    let (out, ready) = match res {
        Ok(Ok(x)) => x,
        Ok(Err(e)) => { mm.push(e); return mm; },
        Err(p) => { mm.push(format!("panic in code under test: {}", p.downcast_ref::<String>().cloned().or_else(|| p.downcast_ref::<&str>().map(|s| s.to_string())).unwrap_or_default())); return mm; },
    };
    let want = expected_bytes(case, &b.out, seed);
    if out != want {
        let (g, gt) = decode_out(&out); let (w, wt) = decode_out(&want);
        mm.push(format!("bytes reaching the client decode to {:?} (+{gt} bytes), specification {:?} (+{wt} bytes); first difference at byte {:?}",
            g.iter().map(|x| (x.ty, x.body.len(), x.plen)).collect::<Vec<_>>(), w.iter().map(|x| (x.ty, x.body.len(), x.plen)).collect::<Vec<_>>(),
            out.iter().zip(&want).position(|(a, b)| a != b)));
    }
    // which polls completed a task (the reply producer never completes: it goes on waiting for input)
    let mut want_ready = Vec::new();
    let mut cur = 0usize;
    for ev in &b.h {
        match ev[0].as_str().unwrap_or("") {
            "poll" => { cur = ev[1].as_u64().unwrap_or(0) as usize; want_ready.push((cur, false)); },
            "done" => { if let Some(l) = want_ready.last_mut() { if !(case.kind3 == "reply" && cur == 3) { l.1 = true; } } },
            _ => {},
        }
    }
    if ready != want_ready { mm.push(format!("polls that completed a writer task: {ready:?}, specification {want_ready:?}")); }
    mm
}

pub fn run_replay(prop: &str, seed: u64, input: impl BufRead, mut log: Option<std::fs::File>, rep: &mut Report) {
    use std::io::Write;
    let mut cases: HashMap<u64, CaseLine> = HashMap::new();
    let prev_hook = std::panic::take_hook();
    std::panic::set_hook(Box::new(|_| {}));
    for line in input.lines() {
        let line = line.unwrap_or_else(|e| { eprintln!("read error: {e}"); std::process::exit(2) });
        if !line.starts_with("\"{") { if let Some(l) = log.as_mut() { let _ = writeln!(l, "{line}"); } continue; }
        let inner: String = serde_json::from_str(&line).unwrap_or_else(|e| { eprintln!("malformed TLC line: {e}"); std::process::exit(2) });
        if inner.starts_with("{\"t\":\"case\"") {
            let cl: CaseLine = serde_json::from_str(&inner).unwrap_or_else(|e| { eprintln!("malformed case: {e}"); std::process::exit(2) });
            rep.sample("case", 4, || json!({"case": cl.c, "programs": cl.progs.iter().map(|p| p.iter().map(|o| format!("{}({})", o.op, o.n)).collect::<Vec<_>>()).collect::<Vec<_>>(), "third": cl.kind3}));
            cases.insert(cl.c, cl);
            continue;
        }
        let b: BehLine = serde_json::from_str(&inner).unwrap_or_else(|e| { eprintln!("malformed behaviour: {e}: {inner:.300}"); std::process::exit(2) });
        let case = cases.get(&b.c).unwrap_or_else(|| { eprintln!("unknown case"); std::process::exit(2) });
        let contended = b.h.iter().any(|e| e[0] == "busy");
        rep.count(if contended { "behaviour:contended" } else { "behaviour" }, &inner, b.h.iter().any(|e| e[0] == "wp" || e[0] == "busy"));
        rep.sample(if contended { "behaviour:contended" } else { "behaviour" }, 1, || serde_json::from_str::<Value>(&inner).unwrap_or(Value::Null));
        if rep.too_many_violations() { continue; }
        for what in compare(case, &b, seed) {
            rep.violation(prop, &format!("output side, case {} schedule {}: {what}", b.c, Value::from(b.h.clone())),
                json!({"kind": "writer-beh", "seed": seed, "case": {"c": case.c, "progs": case.progs.iter().map(|p| p.iter().map(|o| json!({"op": o.op, "n": o.n})).collect::<Vec<_>>()).collect::<Vec<_>>(), "kind3": case.kind3},
                       "beh": serde_json::from_str::<Value>(&inner).unwrap_or(Value::Null)}));
        }
    }
    std::panic::set_hook(prev_hook);
    let _ = hex(&[]);
}

pub fn replay_file(prop: &str, r: &Value, rep: &mut Report) {
    let case: CaseLine = serde_json::from_value(r["case"].clone()).unwrap_or_else(|e| { eprintln!("replay case: {e}"); std::process::exit(2) });
    let b: BehLine = serde_json::from_value(r["beh"].clone()).unwrap_or_else(|e| { eprintln!("replay behaviour: {e}"); std::process::exit(2) });
    rep.count("replay", &0u8, true);
    for what in compare(&case, &b, r["seed"].as_u64().unwrap_or(1)) { rep.violation(prop, &what, r.clone()); }
}
