------------------------------ MODULE AP_Rules ------------------------------
(***************************************************************************)
(* Symbolic (Apalache) check of two arithmetic rules of Codec.tla over     *)
(* their whole domains: the buffer-size rule (C06; TLC enumerates 0..4100, *)
(* the harness sweeps the code against the rule up to 2^20) and the record *)
(* padding rule (C17).  ABuf / Pad restate Codec!AlignedBuf / PadFor;      *)
(* MC_APRules.tla makes TLC check that they agree.                         *)
(*   apalache-mc check --cinit=CInit --inv=BufLaws --length=0 AP_Rules.tla *)
(***************************************************************************)
EXTENDS Integers

CONSTANTS
  \* @type: Int;
  N,
  \* @type: Int;
  L

VARIABLE
  \* @type: Bool;
  dummy

ABuf(n) == IF n <= 24 THEN 24 ELSE ((n + 7) \div 8) * 8
Pad(len) == IF len % 8 = 0 THEN 0 ELSE 8 - (len % 8)

CInit == N \in 0..2147483640 /\ L \in 0..65535
Init == dummy = TRUE
Next == UNCHANGED dummy

\* never smaller than the configured size nor than the 24-byte minimum, a multiple of 8, and the least such number
BufLaws ==
  LET b == ABuf(N) IN
  /\ b >= N /\ b >= 24 /\ b % 8 = 0
  /\ \A m \in (b - 7)..(b - 1) : ~(m >= N /\ m >= 24 /\ m % 8 = 0)

\* content + padding is a multiple of 8, the padding is the least such number (so 0..7), and fits a header byte
PadLaws ==
  LET p == Pad(L) IN
  /\ (L + p) % 8 = 0 /\ p \in 0..7
  /\ \A q \in 0..7 : (L + q) % 8 = 0 => q = p
=============================================================================
