------------------------------ MODULE AP_VarInt ------------------------------
(***************************************************************************)
(* Symbolic (Apalache) check of the VarInt laws of Codec.tla over the      *)
(* WHOLE domain 0..2^31-1 and over ALL byte strings of length 0..5, which  *)
(* TLC can only sample (MC_Codec15: ~400 values, ~1700 strings).           *)
(*                                                                         *)
(* Byte strings are represented without sequences - a length n and bytes   *)
(* b1..b5 - so that the obligations are pure integer arithmetic.           *)
(* EncL/EncB and DecOk/DecVal/DecUsed restate Codec!EncVarInt and          *)
(* Codec!DecVarInt in that representation; MC_APVarInt.tla makes TLC check *)
(* that the restatement and the originals agree on the sampled families,   *)
(* so Codec.tla stays the one source the harness vectors come from.        *)
(*                                                                         *)
(*   apalache-mc check --cinit=CInit --inv=Laws --length=0 AP_VarInt.tla   *)
(***************************************************************************)
EXTENDS Integers

CONSTANTS
  \* @type: Int;
  V,
  \* @type: Int;
  N,
  \* @type: Int;
  B1,
  \* @type: Int;
  B2,
  \* @type: Int;
  B3,
  \* @type: Int;
  B4,
  \* @type: Int;
  B5

VARIABLE
  \* @type: Bool;
  dummy

VarIntMax == 2147483647

\* ---- Codec!EncVarInt: length and the i-th byte (1-based) of the encoding of v
EncL(v) == IF v < 128 THEN 1 ELSE 4
EncB(v, i) ==
  IF v < 128 THEN v
  ELSE IF i = 1 THEN 128 + (v \div 16777216)
  ELSE IF i = 2 THEN (v \div 65536) % 256
  ELSE IF i = 3 THEN (v \div 256) % 256
  ELSE v % 256

\* ---- Codec!DecVarInt on the string of length n with bytes x1..x4 (bytes beyond n are never looked at)
DecOk(n, x1) == n >= 1 /\ (x1 < 128 \/ n >= 4)
DecVal(n, x1, x2, x3, x4) ==
  IF ~DecOk(n, x1) THEN 0
  ELSE IF x1 < 128 THEN x1
  ELSE (x1 - 128) * 16777216 + x2 * 65536 + x3 * 256 + x4
DecUsed(n, x1) == IF ~DecOk(n, x1) THEN 0 ELSE IF x1 < 128 THEN 1 ELSE 4

CInit ==
  /\ V \in 0..VarIntMax
  /\ N \in 0..5
  /\ B1 \in 0..255 /\ B2 \in 0..255 /\ B3 \in 0..255 /\ B4 \in 0..255 /\ B5 \in 0..255

Init == dummy = TRUE
Next == UNCHANGED dummy

\* ---- every value: encode then decode gives the value back and consumes exactly the encoding,
\*      whatever follows it (B1 stands for the byte after a short form; a long form fills the 4 bytes)
RoundTrip ==
  LET l == EncL(V) IN
  /\ \A i \in 1..4 : i <= l => EncB(V, i) \in 0..255
  /\ (l = 4) <=> (EncB(V, 1) >= 128)
  /\ \A extra \in 0..1 :
       LET n == l + extra IN
       /\ DecOk(n, EncB(V, 1))
       /\ DecVal(n, EncB(V, 1), IF l = 4 THEN EncB(V, 2) ELSE B1, IF l = 4 THEN EncB(V, 3) ELSE B2, IF l = 4 THEN EncB(V, 4) ELSE B3) = V
       /\ DecUsed(n, EncB(V, 1)) = l
  \* every strict prefix of a long form is rejected
  /\ l = 4 => \A k \in 0..3 : ~DecOk(k, EncB(V, 1))

\* ---- every byte string: decoding is total, yields a value of the domain, and the canonical re-encoding of
\*      that value is the consumed bytes themselves unless they were a long form of a value below 128
DecodeTotal ==
  LET ok == DecOk(N, B1)  val == DecVal(N, B1, B2, B3, B4)  used == DecUsed(N, B1) IN
  /\ ok => /\ val \in 0..VarIntMax
           /\ used <= N
           /\ (val >= 128 \/ used = 1) =>
                /\ EncL(val) = used
                /\ EncB(val, 1) = B1
                /\ used = 4 => EncB(val, 2) = B2 /\ EncB(val, 3) = B3 /\ EncB(val, 4) = B4
  /\ ~ok => used = 0 /\ val = 0

\* ---- the encoder is injective: if the string B starts with the encoding of V, it decodes to V and to nothing else
Injective ==
  LET l == EncL(V) IN
  (N >= l /\ B1 = EncB(V, 1) /\ (l = 4 => B2 = EncB(V, 2) /\ B3 = EncB(V, 3) /\ B4 = EncB(V, 4)))
    => DecOk(N, B1) /\ DecVal(N, B1, B2, B3, B4) = V /\ DecUsed(N, B1) = l

Laws == RoundTrip /\ DecodeTotal /\ Injective
=============================================================================
