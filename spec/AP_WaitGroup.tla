---------------------------- MODULE AP_WaitGroup ----------------------------
(***************************************************************************)
(* Inductive-invariant proof (Apalache) of the two safety properties of    *)
(* WaitGroup.tla - ShutdownNotEarly and ShutdownWoken (no lost wake-up) -  *)
(* for ANY number of tokens, which TLC checks for NTok <= 4 only.          *)
(* Same variables and actions as WaitGroup.tla without the history         *)
(* variable (MaxPolls = 0 mode); MC_APWaitGroup.tla makes TLC check that   *)
(* WaitGroup!Spec implements this module's Spec (refinement, NTok <= 3).   *)
(*                                                                         *)
(*  apalache-mc check --cinit=CInit --init=WInit --inv=IndInv --length=0   *)
(*  apalache-mc check --cinit=CInit --init=IndInit --inv=IndInv --length=1 *)
(*  apalache-mc check --cinit=CInit --init=IndInit --inv=Safety --length=0 *)
(***************************************************************************)
EXTENDS Integers

CONSTANT
  \* @type: Int;
  NTok

VARIABLES
  \* @type: Int;
  ntok,
  \* @type: Bool;
  runner,
  \* @type: Str;
  fut,
  \* @type: Str;
  pc,
  \* @type: Bool;
  reg,
  \* @type: Bool;
  wake,
  \* @type: Bool;
  polled

CInit == NTok \in Nat

Temp == pc \in {"upgraded", "registered"}
Strong == ntok + (IF runner THEN 1 ELSE 0) + (IF Temp THEN 1 ELSE 0)

WInit == ntok = NTok /\ runner = TRUE /\ fut = "none" /\ pc = "idle" /\ reg = FALSE /\ wake = FALSE /\ polled = FALSE

DropToken ==
  /\ ntok > 0
  /\ ntok' = ntok - 1
  /\ IF Strong - 1 = 0 /\ reg THEN wake' = TRUE /\ reg' = FALSE ELSE UNCHANGED <<wake, reg>>
  /\ UNCHANGED <<runner, fut, pc, polled>>

Shutdown ==
  /\ fut = "none" /\ runner
  /\ fut' = "pending" /\ runner' = FALSE
  /\ UNCHANGED <<ntok, pc, reg, wake, polled>>

PollUpgrade ==
  /\ fut = "pending" /\ pc = "idle"
  /\ wake' = FALSE /\ polled' = TRUE
  /\ IF Strong = 0 THEN fut' = "done" /\ pc' = "idle"
     ELSE fut' = fut /\ pc' = "upgraded"
  /\ UNCHANGED <<ntok, runner, reg>>

PollRegister ==
  /\ pc = "upgraded" /\ pc' = "registered" /\ reg' = TRUE
  /\ UNCHANGED <<ntok, runner, fut, wake, polled>>

PollDropTemp ==
  /\ pc = "registered" /\ pc' = "idle"
  /\ IF Strong - 1 = 0 /\ reg THEN wake' = TRUE /\ reg' = FALSE ELSE UNCHANGED <<wake, reg>>
  /\ UNCHANGED <<ntok, runner, fut, polled>>

Next == DropToken \/ Shutdown \/ PollUpgrade \/ PollRegister \/ PollDropTemp \/ UNCHANGED <<ntok, runner, fut, pc, reg, wake, polled>>
Spec == WInit /\ [][Next]_<<ntok, runner, fut, pc, reg, wake, polled>>

\* ---- the properties of WaitGroup.tla
ShutdownNotEarly == fut = "done" => ntok = 0
ShutdownWoken == (fut = "pending" /\ pc = "idle" /\ polled /\ Strong = 0) => wake
Safety == ShutdownNotEarly /\ ShutdownWoken

\* ---- inductive invariant
TypeOK ==
  /\ ntok \in Nat /\ ntok <= NTok
  /\ fut \in {"none", "pending", "done"}
  /\ pc \in {"idle", "upgraded", "registered"}

IndInv ==
  /\ TypeOK
  /\ runner <=> (fut = "none")
  /\ fut = "none" => pc = "idle" /\ ~reg /\ ~polled /\ ~wake
  /\ pc # "idle" => fut = "pending" /\ polled
  /\ fut = "done" => ntok = 0 /\ polled
  \* a registered waker implies somebody is still alive to fire it
  /\ reg => Strong > 0 /\ polled
  /\ pc = "registered" => reg
  \* between polls: the waker is registered while anything is alive, and has been fired once nothing is
  /\ (fut = "pending" /\ pc = "idle" /\ polled /\ Strong > 0) => reg
  /\ (fut = "pending" /\ pc = "idle" /\ polled /\ Strong = 0) => wake

IndInit == TypeOK /\ runner \in BOOLEAN /\ reg \in BOOLEAN /\ wake \in BOOLEAN /\ polled \in BOOLEAN /\ IndInv
=============================================================================
