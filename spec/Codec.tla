------------------------------- MODULE Codec -------------------------------
(***************************************************************************)
(* Pure encodings of the FastCGI protocol as the crate implements them     *)
(* (protocol/{varint,nv,mod,body,fields,vars}.rs, lib.rs).  Operators      *)
(* only; bytes are naturals 0..255, byte strings are sequences.            *)
(* Used by MC_Codec (laws + vectors for the code) and by the parser and    *)
(* connection specifications (reply bytes, header layout, padding rule).   *)
(***************************************************************************)
EXTENDS Naturals, Sequences, FiniteSets

Byte == 0..255

\* ---------------------------------------------------------------- helpers
Min2(a, b) == IF a < b THEN a ELSE b
Max2(a, b) == IF a > b THEN a ELSE b

RECURSIVE Flatten(_)
Flatten(ss) == IF ss = <<>> THEN <<>> ELSE Head(ss) \o Flatten(Tail(ss))

Zeros(n) == [i \in 1..n |-> 0]

U16BE(x) == << x \div 256, x % 256 >>
FromU16BE(b, i) == b[i] * 256 + b[i + 1]

\* ---------------------------------------------------------------- VarInt
\* protocol/varint.rs.  Values are 0..2^31-1; one byte below 128, otherwise
\* four bytes big-endian with the top bit of the first byte set.
VarIntMax == 2147483647

EncVarInt(v) ==
  IF v < 128 THEN << v >>
  ELSE << 128 + (v \div 16777216), (v \div 65536) % 256, (v \div 256) % 256, v % 256 >>

VarIntLen(v) == IF v < 128 THEN 1 ELSE 4

\* Decoding reads one byte, then (if its top bit is set) exactly three more.
\* used = bytes consumed on success; on failure the error is unexpected-EOF.
DecVarInt(b) ==
  IF Len(b) = 0 THEN [ok |-> FALSE, val |-> 0, used |-> 0]
  ELSE IF b[1] < 128 THEN [ok |-> TRUE, val |-> b[1], used |-> 1]
  ELSE IF Len(b) < 4 THEN [ok |-> FALSE, val |-> 0, used |-> 0]
  ELSE [ok |-> TRUE,
        val |-> (b[1] - 128) * 16777216 + b[2] * 65536 + b[3] * 256 + b[4],
        used |-> 4]

\* TryFrom<u32>: the u32 is given as two 16-bit halves because TLC integers
\* are 32-bit signed.  Succeeds exactly for values <= 2^31-1.
TryFromU32Ok(hi, lo) == hi < 32768
U32Val(hi, lo) == hi * 65536 + lo       \* only meaningful when hi < 32768

\* ---------------------------------------------------------------- name-value pairs
\* protocol/nv.rs
EncNV(name, value) ==
  EncVarInt(Len(name)) \o EncVarInt(Len(value)) \o name \o value

\* One decoding step on the byte string b starting at (0-based) offset o.
\* Returns ok=FALSE when the pair is incomplete (first incomplete pair stops
\* the iterator for good).  Offsets are 0-based half-open [ns,ne) [vs,ve).
DecNVStep(b, o) ==
  LET rest == SubSeq(b, o + 1, Len(b))
      d1   == DecVarInt(rest)
  IN IF ~d1.ok THEN [ok |-> FALSE]
     ELSE LET rest2 == SubSeq(rest, d1.used + 1, Len(rest))
              d2    == DecVarInt(rest2)
          IN IF ~d2.ok THEN [ok |-> FALSE]
             ELSE LET hl == d1.used + d2.used
                      \* lengths clamp: anything announcing more than remains is incomplete
                      fits == /\ d1.val <= Len(rest) - hl
                              /\ d2.val <= Len(rest) - hl - d1.val
                  IN IF ~fits THEN [ok |-> FALSE]
                     ELSE [ok |-> TRUE,
                           ns |-> o + hl, ne |-> o + hl + d1.val,
                           vs |-> o + hl + d1.val, ve |-> o + hl + d1.val + d2.val]

RECURSIVE DecNVFrom(_, _, _)
DecNVFrom(b, o, acc) ==
  LET s == DecNVStep(b, o)
  IN IF ~s.ok THEN [pairs |-> acc, rest |-> o]
     ELSE DecNVFrom(b, s.ve, Append(acc, [ns |-> s.ns, ne |-> s.ne, vs |-> s.vs, ve |-> s.ve]))

\* All complete pairs of b in order, and the offset of the undecoded suffix.
DecNVAll(b) == DecNVFrom(b, 0, <<>>)

SizeHintUpper(b) == Len(b) \div 2

\* ---------------------------------------------------------------- record header
\* protocol/mod.rs, fields.rs.  Known record types 1..11, the only version is 1.
KnownTypes == 1..11
TBegin == 1  TAbort == 2  TEnd == 3  TParams == 4  TStdin == 5  TStdout == 6
TStderr == 7 TData == 8   TGetValues == 9  TGetValuesResult == 10  TUnknown == 11

EncHeader(h) ==
  << h.ver, h.ty >> \o U16BE(h.id) \o U16BE(h.clen) \o << h.plen, 0 >>

\* Decoding checks the version first, then the type; reserved byte ignored.
DecHeader(b) ==
  IF b[1] # 1 THEN [ok |-> FALSE, err |-> "version", code |-> b[1]]
  ELSE IF b[2] \notin KnownTypes THEN [ok |-> FALSE, err |-> "type", code |-> b[2]]
  ELSE [ok |-> TRUE, ver |-> 1, ty |-> b[2], id |-> FromU16BE(b, 3),
        clen |-> FromU16BE(b, 5), plen |-> b[7]]

PadFor(len) == IF len % 8 = 0 THEN 0 ELSE 8 - (len % 8)

NewHeader(ty, id) == [ver |-> 1, ty |-> ty, id |-> id, clen |-> 0, plen |-> 0]
WithLengths(h, clen) == [h EXCEPT !.clen = clen, !.plen = PadFor(clen)]

IsManagementType(ty) == ty \in {TGetValues, TGetValuesResult, TUnknown}
IsManagement(h) == IsManagementType(h.ty) /\ h.id = 0

\* ---------------------------------------------------------------- fixed bodies
\* protocol/body.rs
KnownRoles == 1..3
EncBegin(role, flags) == U16BE(role) \o << flags, 0, 0, 0, 0, 0 >>
DecBegin(b) ==
  LET r == FromU16BE(b, 1)
  IN IF r \in KnownRoles THEN [ok |-> TRUE, role |-> r, flags |-> b[3]]
     ELSE [ok |-> FALSE, role |-> r, flags |-> b[3]]

\* application status as 4 bytes (big-endian) because of the 32-bit integers
KnownStatuses == 0..3
EncEnd(app, pstat) == app \o << pstat, 0, 0, 0 >>
DecEnd(b) ==
  IF b[5] \in KnownStatuses THEN [ok |-> TRUE, app |-> SubSeq(b, 1, 4), pstat |-> b[5]]
  ELSE [ok |-> FALSE, code |-> b[5]]

EncUnknown(ty) == << ty, 0, 0, 0, 0, 0, 0, 0 >>

FixedRecord(ty, id, body) ==
  EncHeader([ver |-> 1, ty |-> ty, id |-> id, clen |-> 8, plen |-> 0]) \o body

BeginRecord(id, role, flags) == FixedRecord(TBegin, id, EncBegin(role, flags))
EndRecord(id, app, pstat)    == FixedRecord(TEnd, id, EncEnd(app, pstat))
UnknownRecord(id, ty)        == FixedRecord(TUnknown, id, EncUnknown(ty))

\* ExitStatus -> EndRequest (lib.rs, body.rs): "complete" carries its code,
\* the two others protocol status 2 / 3 and application status 0.
ExitToEnd(kind, app) ==
  CASE kind = "complete"    -> [app |-> app, pstat |-> 0]
    [] kind = "overloaded"  -> [app |-> <<0, 0, 0, 0>>, pstat |-> 2]
    [] kind = "unknownrole" -> [app |-> <<0, 0, 0, 0>>, pstat |-> 3]
AbortApp == << 65, 66, 82, 84 >>      \* "ABRT"

\* End-of-request sequence: one empty record per output stream, then EndRequest.
Epilogue(id, kind, app, streams) ==
  Flatten([i \in 1..Len(streams) |-> EncHeader(NewHeader(streams[i], id))])
  \o LET e == ExitToEnd(kind, app) IN EndRecord(id, e.app, e.pstat)

\* ---------------------------------------------------------------- GetValuesResult
\* protocol/vars.rs.  vars is a subset of {1,2,4}; names in flag order; the
\* connection limit is given by its decimal digits (it may exceed 2^31).
VarName(bit) ==
  CASE bit = 1 -> << 70,67,71,73,95,77,65,88,95,67,79,78,78,83 >>         \* FCGI_MAX_CONNS
    [] bit = 2 -> << 70,67,71,73,95,77,65,88,95,82,69,81,83 >>            \* FCGI_MAX_REQS
    [] bit = 4 -> << 70,67,71,73,95,77,80,88,83,95,67,79,78,78,83 >>      \* FCGI_MPXS_CONNS
VarBits == <<1, 2, 4>>
DigitBytes(digits) == [i \in 1..Len(digits) |-> 48 + digits[i]]
VarValue(bit, digits) == IF bit = 4 THEN << 48 >> ELSE DigitBytes(digits)

GetValuesBody(vars, digits) ==
  Flatten([i \in 1..3 |-> IF VarBits[i] \in vars
                           THEN EncNV(VarName(VarBits[i]), VarValue(VarBits[i], digits))
                           ELSE <<>>])

GetValuesResult(vars, digits) ==
  LET body == GetValuesBody(vars, digits)
      h    == WithLengths(NewHeader(TGetValuesResult, 0), Len(body))
  IN EncHeader(h) \o body \o Zeros(h.plen)

GetValuesResultLen(vars, ndigits) ==
  LET bl == (IF 1 \in vars THEN 2 + 14 + ndigits ELSE 0)
          + (IF 2 \in vars THEN 2 + 13 + ndigits ELSE 0)
          + (IF 4 \in vars THEN 2 + 15 + 1 ELSE 0)
  IN 8 + bl + PadFor(bl)

ResponseMaxLen == 104

\* ---------------------------------------------------------------- buffer size rule
\* lib.rs Config::aligned_bufsize (below usize::MAX - 7)
AlignedBuf(n) == IF n <= 24 THEN 24 ELSE ((n + 7) \div 8) * 8
=============================================================================
