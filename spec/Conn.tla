-------------------------------- MODULE Conn --------------------------------
(***************************************************************************)
(* One FastCGI connection served by Token::run (src/async_io/mod.rs):      *)
(*   loop { select(stop, parse_request) -> handler -> Request::close }     *)
(* together with its environment: a closed-loop peer, the inbound and      *)
(* outbound transport, a scripted handler, shutdown and fault injection.   *)
(*                                                                         *)
(* The connection task is sequential (the handler future and the writers   *)
(* it awaits are polled inside it), so the model is a sequential program   *)
(* whose only nondeterminism is the outcome of each transport call.  One   *)
(* action = the code between two transport calls ("await points",          *)
(* DESIGN.md appendix C); the parsers embedded in the connection are the   *)
(* operators of ReqParser.tla and StreamParser.tla.                        *)
(*                                                                         *)
(* FixA / FixB select the code as pinned (FALSE) or as repaired (TRUE):    *)
(*   A  parse_request parses carried-over input before reading             *)
(*   B  poll_input flushes parser replies before waiting for input         *)
(***************************************************************************)
EXTENDS StreamParser, Integers

CONSTANTS B,        \* effective buffer size
          ND,       \* decimal digits of the connection limit
          FixA, FixB

\* ------------------------------------------------------------------ scenario (a constant of each behaviour)
\* sc.w      : everything the peer will ever send, as an abstract wire
\* sc.gates  : sequence of [at, kind, n]: bytes at offsets >= at are withheld until the peer has
\*             observed n complete EndRequest records (kind "end") / n complete management replies ("reply")
\* sc.close  : TRUE = the peer closes its sending side after the last byte (EOF), FALSE = stays open
\* sc.progs  : handler program per request (sequence of ops), sc.onAbort per request
\* sc.fault  : [k |-> "none"] | [k |-> "eof", at] | [k |-> "rerr", at] | [k |-> "werr", at] | [k |-> "wzero", at]
\*             (at = inbound / outbound byte offset at which the transport call fails)

\* ------------------------------------------------------------------ output items
IRep(r)            == [k |-> "rep", r |-> r, s |-> 0, n |-> 0, id |-> 0, app |-> "", pstat |-> 0]
IRec(s, n, id)     == [k |-> "rec", r |-> RGvr({}), s |-> s, n |-> n, id |-> id, app |-> "", pstat |-> 0]
IEos(s, id)        == [k |-> "eos", r |-> RGvr({}), s |-> s, n |-> 0, id |-> id, app |-> "", pstat |-> 0]
IEnd(id, app, ps)  == [k |-> "end", r |-> RGvr({}), s |-> 0, n |-> 0, id |-> id, app |-> app, pstat |-> ps]
ItemLen(it) ==
  CASE it.k = "rep" -> ReplyLen(it.r, ND)
    [] it.k = "rec" -> 8 + it.n + PadFor(it.n)
    [] it.k = "eos" -> 8
    [] it.k = "end" -> 16
RECURSIVE ItemsLen(_)
ItemsLen(s) == IF s = <<>> THEN 0 ELSE ItemLen(Head(s)) + ItemsLen(Tail(s))

\* items completely contained in the first n bytes
RECURSIVE CompleteItems(_, _)
CompleteItems(s, n) ==
  IF s = <<>> \/ ItemLen(Head(s)) > n THEN <<>>
  ELSE << Head(s) >> \o CompleteItems(Tail(s), n - ItemLen(Head(s)))

\* ------------------------------------------------------------------ exit status
StOk(app) == [kind |-> "complete", app |-> app]
AbortStatus == StOk("ABRT")
EndOf(st) == CASE st.kind = "complete" -> [app |-> st.app, pstat |-> 0]
               [] st.kind = "overloaded" -> [app |-> "0", pstat |-> 2]
               [] st.kind = "unknownrole" -> [app |-> "0", pstat |-> 3]

\* ------------------------------------------------------------------ connection state
CInit(sc) ==
  [pc |-> "PR_top", phase |-> "req",
   rp |-> RPInit, sp |-> SPInit(NoReq, 0, 0, 1, 0),
   inRead |-> 0,                       \* bytes read from the transport (= bytes fed to the parsers)
   outSeq |-> <<>>, outw |-> 0,        \* items whose writing has begun, bytes accepted by the transport
   wrem |-> 0,                         \* bytes of the current write call's buffer still to be written
   oreg |-> 0,                         \* how many items of sp.outq are already part of outSeq (their writing has begun)
   rfirst |-> TRUE,                    \* FixA: first iteration of parse_request parses without reading
   nreq |-> 0, hp |-> 0, hlog |-> <<>>,
   wr |-> FALSE,                       \* Request.writeable
   pi |-> [dest |-> -1, ret |-> "", read |-> 0],
   hw |-> [s |-> 0, n |-> 0],
   status |-> StOk("0"), aborted |-> FALSE,
   stop |-> FALSE, ended |-> "",
   rpend |-> {}, wpend |-> {}]         \* offsets at which a spurious Pending was already taken

\* what the peer has observed: the complete items among the bytes written
Observed(c) == CompleteItems(c.outSeq, c.outw)
CountKind(items, k) == Cardinality({ i \in 1..Len(items) : items[i].k = k })
CountMgmt(items) == Cardinality({ i \in 1..Len(items) : items[i].k = "rep" /\ items[i].r.k \in {"gvr", "unk"} })
GateOpen(c, g) == IF g.kind = "end" THEN CountKind(Observed(c), "end") >= g.n ELSE CountMgmt(Observed(c)) >= g.n
Released(sc, c) ==
  LET closed == { i \in 1..Len(sc.gates) : ~GateOpen(c, sc.gates[i]) }
      lim == IF closed = {} THEN sc.w.len ELSE sc.gates[CHOOSE i \in closed : \A j \in closed : i <= j].at
  IN IF sc.fault.k = "eof" THEN Min2(lim, sc.fault.at) ELSE lim
\* the inbound stream has ended (EOF will be reported) once everything released has been read and
\* nothing more will ever be released
AtEof(sc, c) ==
  /\ c.inRead = Released(sc, c)
  /\ \/ sc.fault.k = "eof" /\ c.inRead = sc.fault.at
     \/ sc.close /\ c.inRead = sc.w.len

Ended(c, why) == [c EXCEPT !.pc = "Ended", !.ended = why]
Log(c, entry) == [c EXCEPT !.hlog = Append(c.hlog, entry)]

\* begin writing a sequence of items with one write_all / poll_write loop
StartWrite(c, items, pc) == [c EXCEPT !.outSeq = c.outSeq \o items, !.wrem = ItemsLen(items), !.pc = pc]

\* begin (or resume) writing the stream parser's output buffer: its not yet registered replies join outSeq
BeginFlush(c, pc) ==
  LET new == [i \in 1..(Len(c.sp.outq) - c.oreg) |-> IRep(c.sp.outq[c.oreg + i])] IN
  [c EXCEPT !.outSeq = c.outSeq \o new, !.oreg = Len(c.sp.outq), !.wrem = OutLen(c.sp, ND), !.pc = pc]
\* consume_output(k) on the connection's stream parser
ConsumeOut(c, k) ==
  LET sp2 == SP_ConsumeOutput(c.sp, ND, k) IN [c EXCEPT !.sp = sp2, !.oreg = IF sp2.outq = <<>> THEN 0 ELSE c.oreg]

\* ------------------------------------------------------------------ handler programs
OpRead(k)       == [op |-> "read", a |-> k, s |-> 0, st |-> StOk("0")]
OpFill          == [op |-> "fill", a |-> 0, s |-> 0, st |-> StOk("0")]
OpConsume(k)    == [op |-> "consume", a |-> k, s |-> 0, st |-> StOk("0")]
OpReadAll(k)    == [op |-> "readall", a |-> k, s |-> 0, st |-> StOk("0")]   \* read(k) until it returns 0
OpSetStream(s)  == [op |-> "setstream", a |-> 0, s |-> s, st |-> StOk("0")]
OpWriteable     == [op |-> "writeable", a |-> 0, s |-> 0, st |-> StOk("0")]
OpWrite(s, n)   == [op |-> "write", a |-> n, s |-> s, st |-> StOk("0")]
OpFlush(s)      == [op |-> "flush", a |-> 0, s |-> s, st |-> StOk("0")]
OpRet(st)       == [op |-> "ret", a |-> 0, s |-> 0, st |-> st]

Prog(sc, c) == sc.progs[Min2(c.nreq, Len(sc.progs))]
CurOp(sc, c) == Prog(sc, c)[c.hp]

\* the handler future returns Ok(st) / Err(kind)
HandlerReturns(sc, c, st) == [c EXCEPT !.pc = "CL_start", !.status = st]
HandlerFails(sc, c, kind) ==
  IF kind = "ConnectionAborted"
  THEN LET oa == sc.onAbort[Min2(c.nreq, Len(sc.onAbort))] IN
       IF oa.kind = "propagate" THEN [c EXCEPT !.pc = "CL_start", !.status = AbortStatus, !.aborted = TRUE]
       ELSE [c EXCEPT !.pc = "CL_start", !.status = oa, !.aborted = TRUE]
  ELSE Ended(c, "handler-io-error")

IsFinalStream(c) == NextStream(c.sp.req.role, c.sp.stream) = NoStream

\* poll_input(dest) is entered / re-entered from its top; ret names the caller
CallPI(c, dest, ret) == [c EXCEPT !.pc = "PI_top", !.pi = [dest |-> dest, ret |-> ret, read |-> 0]]

\* poll_input returns to its caller
PIReturn(sc, c, ok, n, got, kind) ==
  LET ret == c.pi.ret IN
  IF ret = "CLw"
  THEN IF ok \/ kind = "ConnectionAborted" THEN [c EXCEPT !.pc = "CL_n"] ELSE Ended(c, "close-io-error")
  ELSE \* a handler op
  LET op == CurOp(sc, c) IN
  IF ~ok THEN HandlerFails(sc, Log(c, [op |-> IF op.op = "readall" THEN "read" ELSE op.op, ok |-> FALSE, n |-> 0, got |-> <<>>, err |-> kind, wr |-> c.wr]), kind)
  ELSE
  CASE op.op = "read" -> [Log(c, [op |-> "read", ok |-> TRUE, n |-> n, got |-> got, err |-> "", wr |-> c.wr]) EXCEPT !.pc = "H_op", !.hp = c.hp + 1]
    [] op.op = "readall" ->
         IF n = 0 THEN [Log(c, [op |-> "read", ok |-> TRUE, n |-> 0, got |-> <<>>, err |-> "", wr |-> c.wr]) EXCEPT !.pc = "H_op", !.hp = c.hp + 1]
         ELSE [Log(c, [op |-> "read", ok |-> TRUE, n |-> n, got |-> got, err |-> "", wr |-> c.wr]) EXCEPT !.pc = "H_op"]
    [] op.op = "fill" -> [Log(c, [op |-> "fill", ok |-> TRUE, n |-> ParsedLen(c.sp), got |-> c.sp.piv, err |-> "", wr |-> c.wr]) EXCEPT !.pc = "H_op", !.hp = c.hp + 1]
    [] op.op = "writeable" -> [Log(c, [op |-> "writeable", ok |-> TRUE, n |-> 0, got |-> <<>>, err |-> "", wr |-> c.wr]) EXCEPT !.pc = "H_op", !.hp = c.hp + 1]

\* ------------------------------------------------------------------ internal steps (no transport call)
\* returns the next state; called repeatedly until pc is a transport call, "Ended", or a parked read
CStep(sc, c) ==
  CASE c.pc = "PR_top" ->
         \* select(stop, parse_request): a stop request seen at this poll ends the connection
         IF c.stop THEN Ended(c, "shutdown")
         ELSE IF FixA /\ c.rfirst
         THEN LET r == RP_Parse(sc.w, B, c.rp, c.inRead, 0)
              IN [c EXCEPT !.rp = r.st, !.rfirst = FALSE, !.pc = "PR_parsed",
                           !.outSeq = c.outSeq \o [i \in 1..Len(r.out) |-> IRep(r.out[i])],
                           !.wrem = ItemsLen([i \in 1..Len(r.out) |-> IRep(r.out[i])])]
         ELSE [c EXCEPT !.pc = "PR_read", !.rfirst = FALSE]
    [] c.pc = "PR_parsed" ->
         IF c.wrem > 0 THEN [c EXCEPT !.pc = "PR_write"]
         ELSE IF Final(c.rp)
         THEN IF c.rp.mode = "Done"
              THEN [c EXCEPT !.pc = "H_start", !.phase = "handler",
                             !.sp = SPInit(c.rp.req, c.rp.pos, c.inRead - c.rp.pos, c.rp.ri, c.rp.sess)]
              ELSE Ended(c, "parse-error")
         ELSE [c EXCEPT !.pc = "PR_read"]
    [] c.pc = "H_start" ->
         [c EXCEPT !.nreq = c.nreq + 1, !.hp = 1, !.pc = "H_op", !.aborted = FALSE,
                   !.wr = Len(InputStreams(c.sp.req.role)) <= 1,
                   !.hlog = Append(c.hlog, [op |-> "begin", ok |-> TRUE, n |-> c.sp.req.id, got |-> <<>>, err |-> "", wr |-> Len(InputStreams(c.sp.req.role)) <= 1,
                                            req |-> c.sp.req, sess |-> c.rp.sess, env |-> { << k, c.rp.env[k] >> : k \in DOMAIN c.rp.env }])]
    [] c.pc = "H_op" ->
        (LET op == CurOp(sc, c) IN
         CASE op.op \in {"read", "readall"} -> CallPI(c, op.a, "H")
           [] op.op = "fill" -> CallPI(c, -1, "H")
           [] op.op = "consume" ->
                [Log([c EXCEPT !.sp = SP_ConsumeStream(c.sp, op.a)], [op |-> "consume", ok |-> TRUE, n |-> op.a, got |-> <<>>, err |-> "", wr |-> c.wr])
                   EXCEPT !.hp = c.hp + 1]
           [] op.op = "setstream" ->
                LET r == SP_SetStream(c.sp, op.s) IN
                [Log([c EXCEPT !.sp = r.st], [op |-> "setstream", ok |-> r.ok, n |-> op.s, got |-> <<>>, err |-> "", wr |-> c.wr]) EXCEPT !.hp = c.hp + 1]
           [] op.op = "writeable" ->
                IF c.wr THEN [Log(c, [op |-> "writeable", ok |-> TRUE, n |-> 0, got |-> <<>>, err |-> "", wr |-> TRUE]) EXCEPT !.hp = c.hp + 1]
                ELSE LET last == InputStreams(c.sp.req.role)[Len(InputStreams(c.sp.req.role))]
                     IN CallPI([c EXCEPT !.sp = SP_SetStream(c.sp, last).st], -1, "H")
           [] op.op = "write" ->
                \* write_all over StreamWriter::poll_write: nothing for an empty buffer, else records of at most 65535 bytes
                IF op.a = 0 THEN [Log(c, [op |-> "write", ok |-> TRUE, n |-> 0, got |-> <<>>, err |-> "", wr |-> c.wr]) EXCEPT !.hp = c.hp + 1]
                ELSE LET n == Min2(op.a, 65535) IN
                     [StartWrite(c, << IRec(op.s, n, c.sp.req.id) >>, "HW_write") EXCEPT !.hw = [s |-> op.s, n |-> op.a - n]]
           [] op.op = "flush" -> [Log(c, [op |-> "flush", ok |-> TRUE, n |-> 0, got |-> <<>>, err |-> "", wr |-> c.wr]) EXCEPT !.hp = c.hp + 1]
           [] op.op = "ret" -> HandlerReturns(sc, c, op.st))
    [] c.pc = "HW_done" ->
         \* hw.n = bytes of the write_all buffer still to be sent as further records
         IF c.hw.n > 0
         THEN LET n == Min2(c.hw.n, 65535) IN [StartWrite(c, << IRec(c.hw.s, n, c.sp.req.id) >>, "HW_write") EXCEPT !.hw = [s |-> c.hw.s, n |-> c.hw.n - n]]
         ELSE [Log(c, [op |-> "write", ok |-> TRUE, n |-> CurOp(sc, c).a, got |-> <<>>, err |-> "", wr |-> c.wr]) EXCEPT !.pc = "H_op", !.hp = c.hp + 1]
    \* ---- poll_input
    [] c.pc = "PI_top" ->
         LET d == c.pi.dest  plen == ParsedLen(c.sp) IN
         IF d = 0 \/ (d = -1 /\ plen > 0) THEN PIReturn(sc, c, TRUE, 0, <<>>, "")
         ELSE IF d > 0 /\ plen > 0
         THEN LET m == Min2(d, plen) IN PIReturn(sc, [c EXCEPT !.sp = SP_ConsumeStream(c.sp, m)], TRUE, m, IvTake(c.sp.piv, m), "")
         ELSE IF OutLen(c.sp, ND) > 0 THEN BeginFlush(c, "PI_write")
         ELSE [c EXCEPT !.pc = "PI_parse", !.pi.read = 0]
    [] c.pc = "PI_parse" ->
         LET r == SP_Parse(sc.w, ND, c.sp, c.pi.read, c.pi.dest)
             c1 == [c EXCEPT !.sp = r.st]
         IN IF r.err # "" THEN PIReturn(sc, c1, FALSE, 0, <<>>, IF r.err = "Abort" THEN "ConnectionAborted" ELSE "InvalidData")
            ELSE IF r.res.end \/ r.res.stream > 0
            THEN LET c2 == IF ~c1.wr /\ IsFinalStream(c1) THEN [c1 EXCEPT !.wr = TRUE] ELSE c1
                 IN PIReturn(sc, c2, TRUE, r.res.stream, r.got, "")
            ELSE IF FixB /\ OutLen(r.st, ND) > 0 THEN BeginFlush(c1, "PI_write2")
            ELSE [c1 EXCEPT !.sp = SP_Compress(r.st), !.pc = "PI_read"]
    \* ---- close
    [] c.pc = "CL_start" ->
         IF c.wr THEN [c EXCEPT !.pc = "CL_n"]
         ELSE LET ss == InputStreams(c.sp.req.role)
                  r == SP_SetStream(c.sp, ss[Len(ss)])
              IN CallPI([c EXCEPT !.sp = r.st], -1, "CLw")
    [] c.pc = "CL_n" -> [c EXCEPT !.sp = SP_SetStream(c.sp, NoStream).st, !.pc = IF AtBoundary(c.sp) THEN "CL_epi" ELSE "CL_rb", !.pi.read = 0]
    [] c.pc = "CL_rb" ->
         LET r == SP_Parse(sc.w, ND, c.sp, c.pi.read, -1)
             c1 == [c EXCEPT !.sp = r.st]
         IN IF r.err = "Version" THEN Ended(c1, "close-parse-error")
            ELSE IF AtBoundary(r.st) THEN [c1 EXCEPT !.pc = "CL_epi"]
            ELSE [c1 EXCEPT !.sp = SP_Compress(r.st), !.pc = "CL_rb_read"]
    [] c.pc = "CL_epi" ->
         LET id == c.sp.req.id
             e == EndOf(c.status)
             epi == (IF c.wr THEN << IEos(TStdout, id), IEos(TStderr, id) >> ELSE <<>>) \o << IEnd(id, e.app, e.pstat) >>
         IN IF OutLen(c.sp, ND) > 0
            THEN BeginFlush(c, "CL_write_out")
            ELSE StartWrite(c, epi, "CL_write_epi")
    [] c.pc = "CL_out_done" ->
         LET id == c.sp.req.id
             e == EndOf(c.status)
             epi == (IF c.wr THEN << IEos(TStdout, id), IEos(TStderr, id) >> ELSE <<>>) \o << IEnd(id, e.app, e.pstat) >>
         IN StartWrite(ConsumeOut(c, OutLen(c.sp, ND)), epi, "CL_write_epi")
    [] c.pc = "CL_keep" ->
         IF c.sp.req.flags % 2 = 1
         THEN [c EXCEPT !.pc = "PR_top", !.phase = "req", !.rfirst = TRUE,
                        !.rp = RPInitAt(c.sp.rawLo, c.sp.ri, c.sp.sess), !.sp = SP_Discard(c.sp)]
         ELSE Ended(c, "no-keepconn")
    [] OTHER -> Print(<< "CStep: unhandled pc", c.pc >>, Ended(c, "spec-error"))

IoPcs == {"PR_read", "PI_read", "CL_rb_read", "PR_write", "PI_write", "PI_write2", "CL_write_out", "CL_write_epi", "HW_write"}
ReadPcs == {"PR_read", "PI_read", "CL_rb_read"}
WritePcs == IoPcs \ ReadPcs

RECURSIVE Run(_, _)
Run(sc, c) == IF c.pc \in IoPcs \cup {"Ended"} THEN c ELSE Run(sc, CStep(sc, c))

\* ------------------------------------------------------------------ transport calls
ReadCap(c) == IF c.pc = "PR_read" THEN Free(B, c.rp, c.inRead) ELSE SFree(B, c.sp)

\* a read of n > 0 bytes / end-of-file (n = 0) / error
AfterRead(sc, c, n) ==
  LET c0 == [c EXCEPT !.inRead = c.inRead + n] IN
  CASE c.pc = "PR_read" ->
         IF n = 0 THEN Ended(c, "reset")
         ELSE LET r == RP_Parse(sc.w, B, c.rp, c.inRead, n)
                  items == [i \in 1..Len(r.out) |-> IRep(r.out[i])]
              IN [c0 EXCEPT !.rp = r.st, !.pc = "PR_parsed", !.outSeq = c.outSeq \o items, !.wrem = ItemsLen(items)]
    [] c.pc = "PI_read" ->
         IF n = 0 THEN PIReturn(sc, c, FALSE, 0, <<>>, "UnexpectedEof")
         ELSE [c0 EXCEPT !.pc = "PI_parse", !.pi.read = n]
    [] c.pc = "CL_rb_read" ->
         IF n = 0 THEN Ended(c, "close-io-error") ELSE [c0 EXCEPT !.pc = "CL_rb", !.pi.read = n]

ReadFails(sc, c) ==
  CASE c.pc = "PR_read" -> Ended(c, "parse-io-error")
    [] c.pc = "PI_read" -> PIReturn(sc, c, FALSE, 0, <<>>, "Other")
    [] c.pc = "CL_rb_read" -> Ended(c, "close-io-error")

\* a write call accepted k of the wrem bytes offered
AfterWrite(sc, c, k) ==
  LET c0 == [c EXCEPT !.outw = c.outw + k, !.wrem = c.wrem - k]
      done == c.wrem = k
  IN
  CASE c.pc = "PR_write" -> IF done THEN [c0 EXCEPT !.pc = "PR_parsed"] ELSE c0
    [] c.pc \in {"PI_write", "PI_write2"} ->
         LET c1 == ConsumeOut(c0, k) IN
         IF ~done THEN c1
         ELSE IF c.pc = "PI_write" THEN [c1 EXCEPT !.pc = "PI_parse", !.pi.read = 0]
         ELSE [c1 EXCEPT !.sp = SP_Compress(c1.sp), !.pc = "PI_read"]
    [] c.pc = "CL_write_out" -> IF done THEN [c0 EXCEPT !.pc = "CL_out_done"] ELSE c0
    [] c.pc = "CL_write_epi" -> IF done THEN [c0 EXCEPT !.pc = "CL_keep"] ELSE c0
    [] c.pc = "HW_write" -> IF done THEN [c0 EXCEPT !.pc = "HW_done"] ELSE c0

WriteFails(sc, c, kind) ==
  CASE c.pc = "PR_write" -> Ended(c, "parse-io-error")
    [] c.pc \in {"PI_write", "PI_write2"} -> PIReturn(sc, c, FALSE, 0, <<>>, kind)
    [] c.pc \in {"CL_write_out", "CL_write_epi"} -> Ended(c, "close-io-error")
    [] c.pc = "HW_write" ->
         HandlerFails(sc, Log(c, [op |-> "write", ok |-> FALSE, n |-> 0, got |-> <<>>, err |-> kind, wr |-> c.wr]), kind)

\* A poll of the connection task while it is inside select(stop, parse_request): the stop future is
\* polled first, so a pending shutdown request ends the connection before the request future runs.
InSelect(c) == c.pc \in {"PR_read", "PR_write"}
Repoll(sc, c) ==
  IF InSelect(c) /\ c.stop THEN Ended(c, "shutdown")
  ELSE IF c.pc \in {"PI_read", "PI_write", "PI_write2"} THEN [c EXCEPT !.pc = "PI_top", !.pi.read = 0]   \* poll_input re-enters from its top
  ELSE c

\* the task is suspended on a read for which the peer will send nothing until it observes more output
ParkedOnRead(sc, c) == c.pc \in ReadPcs /\ c.inRead = Released(sc, c) /\ ~AtEof(sc, c) /\ ~(sc.fault.k = "rerr" /\ sc.fault.at = c.inRead)

\* ------------------------------------------------------------------ reference: replies owed for what has been read
\* (exactly the records for which C04 prescribes a reply and C08 quantifies over:
\*  GetValues with a non-empty body, records of unknown type)
RECURSIVE OwedUpTo(_, _, _)
OwedUpTo(w, i, lim) ==
  IF i > Len(w.recs) THEN 0
  ELSE LET r == w.recs[i] IN
       IF r.ver # 1 THEN 0
       ELSE (IF r.ty \notin KnownTypes /\ r.off + 8 <= lim THEN 1
             ELSE IF r.ty = TGetValues /\ r.id = 0 /\ r.clen > 0 /\ r.off + 8 + r.clen <= lim THEN 1 ELSE 0)
            + OwedUpTo(w, i + 1, lim)
=============================================================================
