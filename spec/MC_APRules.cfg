SPECIFICATION Spec
INVARIANT Same
CHECK_DEADLOCK FALSE
