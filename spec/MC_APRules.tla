----------------------------- MODULE MC_APRules -----------------------------
(* TLC bridge: AP_Rules restates Codec!AlignedBuf and Codec!PadFor. *)
EXTENDS Codec, TLC, Integers
AP == INSTANCE AP_Rules WITH N <- 0, L <- 0, dummy <- TRUE
VARIABLE c
Init == c \in 0..70000
Next == UNCHANGED c
Spec == Init /\ [][Next]_c
Same == AP!ABuf(c) = AlignedBuf(c) /\ AP!Pad(c) = PadFor(c)
=============================================================================
