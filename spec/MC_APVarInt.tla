---------------------------- MODULE MC_APVarInt ----------------------------
(***************************************************************************)
(* Bridge between Codec.tla (sequences; source of the vectors the harness  *)
(* replays on the code) and AP_VarInt.tla (pure integers; checked          *)
(* symbolically by Apalache over the whole domain): TLC checks that both   *)
(* say the same on the families of MC_Codec15.                             *)
(***************************************************************************)
EXTENDS Codec, TLC, Integers

AP == INSTANCE AP_VarInt WITH V <- 0, N <- 0, B1 <- 0, B2 <- 0, B3 <- 0, B4 <- 0, B5 <- 0, dummy <- TRUE

VARIABLE c

Pow2(k) == 2 ^ k
VVals == (0..300)
         \cup UNION { {Pow2(k) - 1, Pow2(k), Pow2(k) + 1} : k \in 1..30 }
         \cup {2147483646, 2147483647, 16777215, 16777216, 16777217}
BB == {0, 1, 127, 128, 129, 255}
Strs ==
     { << x >> : x \in 0..255 }
  \cup { SubSeq(EncVarInt(v), 1, k) : v \in {128, 300, 65536, 2147483647}, k \in 1..3 }
  \cup { << a, b, cc, d >> : a \in BB, b \in BB, cc \in BB, d \in BB }
  \cup { << 128 + a, 255, 255, 255, 7 >> : a \in 0..127 }
  \cup { <<>> }

At(b, i) == IF i <= Len(b) THEN b[i] ELSE 0

EncSame(v) == EncVarInt(v) = [i \in 1..AP!EncL(v) |-> AP!EncB(v, i)]
DecSame(b) ==
  LET d == DecVarInt(b) IN
  /\ d.ok = AP!DecOk(Len(b), At(b, 1))
  /\ d.val = AP!DecVal(Len(b), At(b, 1), At(b, 2), At(b, 3), At(b, 4))
  /\ d.used = AP!DecUsed(Len(b), At(b, 1))

Init == c \in [k : {"enc"}, v : VVals] \cup [k : {"dec"}, b : Strs]
Next == UNCHANGED c
Spec == Init /\ [][Next]_c
Same == IF c.k = "enc" THEN EncSame(c.v) ELSE DecSame(c.b)
=============================================================================
