SPECIFICATION Spec
CONSTANTS
  NTok = 3
  MaxPolls = 0
INVARIANT SameProps
PROPERTY Refines
CHECK_DEADLOCK FALSE
