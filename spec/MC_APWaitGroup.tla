--------------------------- MODULE MC_APWaitGroup ---------------------------
(* TLC bridge: every behaviour of WaitGroup.tla (the module bound to the code by the C14 replays) is a behaviour of
   AP_WaitGroup.tla (the module whose inductive invariant Apalache proves for any number of tokens). *)
EXTENDS WaitGroup
AP == INSTANCE AP_WaitGroup
Spec == WInit /\ [][WNext]_wvars
Refines == AP!Spec
SameProps == (ShutdownNotEarly <=> AP!ShutdownNotEarly) /\ (ShutdownWoken <=> AP!ShutdownWoken)
=============================================================================
