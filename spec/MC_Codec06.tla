----------------------------- MODULE MC_Codec06 -----------------------------
(* Buffer-size rule of C06: Config::aligned_bufsize as Codec!AlignedBuf. *)
EXTENDS Codec, TLC, Json, Integers
VARIABLE c
Init == c \in { [t |-> "abuf", n |-> n, b |-> AlignedBuf(n)] : n \in 0..4100 }
Next == UNCHANGED c
Spec == Init /\ [][Next]_c
Laws == c.b >= c.n /\ c.b >= 24 /\ c.b % 8 = 0 /\ c.b < Max2(c.n, 24) + 8
Emit == PrintT(ToJson(c))
=============================================================================
