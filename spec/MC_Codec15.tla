---------------------------- MODULE MC_Codec15 ----------------------------
(***************************************************************************)
(* Model-checking wrapper for Codec: every state is one test case of a     *)
(* finite family; the invariants are the algebraic laws on the             *)
(* specification's own operators; Emit prints every case with its expected *)
(* result as one JSON line (a vector) which the harness replays on the     *)
(* real encode/decode functions of the crate.                              *)
(*                                                                         *)
(* Fam selects the family: "C15" varint, "C16" name-value, "C17" headers,  *)
(* bodies, replies, "C06" buffer-size rule.                                *)
(***************************************************************************)
EXTENDS Codec, TLC, Json, Integers

VARIABLE c

Pow2(k) == 2 ^ k
VVals == (0..300)
         \cup UNION { {Pow2(k) - 1, Pow2(k), Pow2(k) + 1} : k \in 1..30 }
         \cup {2147483646, 2147483647, 16777215, 16777216, 16777217}
BB == {0, 1, 127, 128, 129, 255}

ViEncCases == { [t |-> "vi.enc", v |-> v, bytes |-> EncVarInt(v)] : v \in VVals }

DecCase(b) == LET d == DecVarInt(b) IN [t |-> "vi.dec", bytes |-> b, ok |-> d.ok, val |-> d.val, used |-> d.used]
ViDecInputs ==
     { << x >> : x \in 0..255 }
  \cup { SubSeq(EncVarInt(v), 1, k) : v \in {128, 300, 65536, 2147483647}, k \in 1..3 }
  \cup { EncVarInt(v) \o << x >> : v \in {0, 127, 128, 2147483647}, x \in {0, 255} }
  \cup { << a, b, cc, d >> : a \in BB, b \in BB, cc \in BB, d \in BB }
  \cup { << 128 + a, 255, 255, 255 >> : a \in 0..127 }
  \cup { <<>> }
ViDecCases == { DecCase(b) : b \in ViDecInputs }

ViTryCases == { [t |-> "vi.try", hi |-> hi, lo |-> lo, ok |-> TryFromU32Ok(hi, lo)]
                : hi \in {0, 1, 127, 128, 32767, 32768, 32769, 65535}, lo \in {0, 1, 127, 128, 65534, 65535} }

\* laws


LawViEnc ==
  c.t = "vi.enc" =>
    LET e == EncVarInt(c.v)  d == DecVarInt(e) IN
    /\ d.ok /\ d.val = c.v /\ d.used = Len(e)
    /\ Len(e) = (IF c.v < 128 THEN 1 ELSE 4)
    /\ (Len(e) = 4) <=> (e[1] >= 128)
    /\ \A i \in 1..Len(e) : e[i] \in Byte
    \* consumes exactly the encoded bytes, whatever follows
    /\ \A x \in {0, 200} : LET d2 == DecVarInt(e \o << x >>) IN d2.ok /\ d2.val = c.v /\ d2.used = Len(e)
    \* every strict prefix of a four-byte encoding fails
    /\ Len(e) = 4 => \A k \in 0..3 : ~DecVarInt(SubSeq(e, 1, k)).ok
    \* big-endian: value reconstructed from the bytes
    /\ Len(e) = 4 => (e[1] - 128) * 16777216 + e[2] * 65536 + e[3] * 256 + e[4] = c.v

LawViDec ==
  c.t = "vi.dec" =>
    /\ c.ok <=> (Len(c.bytes) >= 1 /\ (c.bytes[1] < 128 \/ Len(c.bytes) >= 4))
    /\ c.ok => /\ c.val \in 0..VarIntMax
               /\ c.used = (IF c.bytes[1] < 128 THEN 1 ELSE 4)
               \* canonical re-encoding decodes to the same value
               /\ DecVarInt(EncVarInt(c.val)).val = c.val

LawViTry ==
  c.t = "vi.try" => (c.ok <=> c.hi <= 32767) /\ (c.ok => U32Val(c.hi, c.lo) <= VarIntMax)

\* injectivity of the encoder on the family (checked once)
ASSUME \A v1, v2 \in VVals : v1 # v2 => EncVarInt(v1) # EncVarInt(v2)


Init == \/ c \in ViEncCases
        \/ c \in ViDecCases
        \/ c \in ViTryCases
Next == UNCHANGED c
Spec == Init /\ [][Next]_c
Laws == LawViEnc /\ LawViDec /\ LawViTry
Emit == PrintT(ToJson(c))
=============================================================================
