---------------------------- MODULE MC_Codec16 ----------------------------
(***************************************************************************)
(* Model-checking wrapper for Codec: every state is one test case of a     *)
(* finite family; the invariants are the algebraic laws on the             *)
(* specification's own operators; Emit prints every case with its expected *)
(* result as one JSON line (a vector) which the harness replays on the     *)
(* real encode/decode functions of the crate.                              *)
(*                                                                         *)
(* Fam selects the family: "C15" varint, "C16" name-value, "C17" headers,  *)
(* bodies, replies, "C06" buffer-size rule.                                *)
(***************************************************************************)
EXTENDS Codec, TLC, Json, Integers

VARIABLE c

IsPrefixSeq(p, s) == Len(p) <= Len(s) /\ SubSeq(s, 1, Len(p)) = p
A8 == {0, 1, 2, 3, 127, 128, 129, 255}
RECURSIVE Strings(_)
Strings(n) == IF n = 0 THEN { <<>> }
              ELSE LET s == Strings(n - 1) IN s \cup { Append(x, a) : x \in { y \in s : Len(y) = n - 1 }, a \in A8 }

NvDecCase(b) == LET d == DecNVAll(b) IN
  [t |-> "nv.dec", bytes |-> b, pairs |-> d.pairs, rest |-> d.rest, hint |-> SizeHintUpper(b)]

\* content bytes are a function of the position so that a shifted slice differs
Content(n, salt) == [i \in 1..n |-> (i * 7 + salt) % 251]
LenSet == {0, 1, 127, 128, 129}
PairLists ==
     { << <<n, v>> >> : n \in LenSet, v \in LenSet }
  \cup { << <<n1, v1>>, <<n2, v2>> >> : n1 \in LenSet, v1 \in {0, 128}, n2 \in {1, 127, 128}, v2 \in LenSet }
EncList(pl) == Flatten([i \in 1..Len(pl) |-> EncNV(Content(pl[i][1], 11 * i), Content(pl[i][2], 11 * i + 5))])
NvRtCase(pl) == LET b == EncList(pl)  d == DecNVAll(b) IN
  [t |-> "nv.rt", lens |-> pl, bytes |-> b, pairs |-> d.pairs, rest |-> d.rest, hint |-> SizeHintUpper(b)]

\* announcing more than remains / more than 2^31 is impossible (top bit is the
\* length flag), the largest announcement is 2^31-1
NvHostile == {
  << 255, 255, 255, 255, 0 >>, << 255, 255, 255, 255, 255, 255, 255, 255 >>,
  << 0, 255, 255, 255, 255 >>, << 127, 127 >>, << 1, 1, 65 >>, << 128, 0, 0, 1, 0 >>,
  << 128, 0, 0, 1, 0, 66 >>, << 128, 0, 0, 0, 128, 0, 0, 0 >>, << 128, 0, 0, 0, 128, 0, 0, 0, 0, 0 >> }

PairsConsecutive(b, d) ==
  /\ \A i \in 1..Len(d.pairs) :
       LET p == d.pairs[i]
           start == IF i = 1 THEN 0 ELSE d.pairs[i - 1].ve
           h == DecNVStep(b, start)
       IN /\ h.ok /\ h.ns = p.ns /\ p.ne = p.vs /\ p.ns <= p.ne /\ p.vs <= p.ve /\ p.ve <= Len(b)
          /\ p.ns - start \in {2, 5, 8}
  /\ d.rest = (IF d.pairs = <<>> THEN 0 ELSE d.pairs[Len(d.pairs)].ve)
  /\ ~DecNVStep(b, d.rest).ok

CutPoints(b, d) == { k \in 0..Len(b) : k <= 12 \/ k >= Len(b) - 6
                       \/ \E i \in 1..Len(d.pairs) : LET p == d.pairs[i] IN
                            \E e \in {p.ns, p.ne, p.ve} : k >= e - 2 /\ k <= e + 6 }

LawNv ==
  c.t \in {"nv.dec", "nv.rt"} =>
    LET b == c.bytes  d == DecNVAll(b) IN
    /\ PairsConsecutive(b, d)
    /\ Len(d.pairs) <= SizeHintUpper(b)
    \* prefix-monotone: pairs of a prefix are a prefix of the pairs of the whole
    /\ \A k \in CutPoints(b, d) :
         LET dp == DecNVAll(SubSeq(b, 1, k)) IN IsPrefixSeq(dp.pairs, d.pairs) /\ dp.rest <= k

LawNvRt ==
  c.t = "nv.rt" =>
    LET b == c.bytes  d == DecNVAll(b) IN
    /\ d.rest = Len(b) /\ Len(d.pairs) = Len(c.lens)
    /\ \A i \in 1..Len(c.lens) :
         /\ SubSeq(b, d.pairs[i].ns + 1, d.pairs[i].ne) = Content(c.lens[i][1], 11 * i)
         /\ SubSeq(b, d.pairs[i].vs + 1, d.pairs[i].ve) = Content(c.lens[i][2], 11 * i + 5)
    /\ Len(b) = Len(EncList(c.lens))


Init == \/ c \in { NvDecCase(b) : b \in Strings(5) }
        \/ c \in { NvDecCase(b) : b \in NvHostile \ Strings(5) }
        \/ c \in { NvRtCase(pl) : pl \in PairLists }
Next == UNCHANGED c
Spec == Init /\ [][Next]_c
Laws == LawNv /\ LawNvRt
Emit == PrintT(ToJson(c))
=============================================================================
