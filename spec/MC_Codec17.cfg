SPECIFICATION Spec
CONSTANT Full = FALSE
INVARIANT Laws
INVARIANT Emit
CHECK_DEADLOCK FALSE
