---------------------------- MODULE MC_Codec17 ----------------------------
(***************************************************************************)
(* Model-checking wrapper for Codec: every state is one test case of a     *)
(* finite family; the invariants are the algebraic laws on the             *)
(* specification's own operators; Emit prints every case with its expected *)
(* result as one JSON line (a vector) which the harness replays on the     *)
(* real encode/decode functions of the crate.                              *)
(*                                                                         *)
(* Fam selects the family: "C15" varint, "C16" name-value, "C17" headers,  *)
(* bodies, replies, "C06" buffer-size rule.                                *)
(***************************************************************************)
EXTENDS Codec, TLC, Json, Integers

CONSTANT Full      \* TRUE: thorough families; FALSE: quick subset
VARIABLE c

IdSet == {0, 1, 255, 256, 30379, 65535}
ClenSet == {0, 1, 7, 8, 9, 255, 256, 12964, 65535}
PlenSet == {0, 1, 7, 8, 139, 255}

HdDecCase(b) == LET d == DecHeader(b) IN
  IF d.ok THEN [t |-> "hd.dec", bytes |-> b, ok |-> TRUE, err |-> "", code |-> 0, ty |-> d.ty, id |-> d.id, clen |-> d.clen, plen |-> d.plen]
  ELSE [t |-> "hd.dec", bytes |-> b, ok |-> FALSE, err |-> d.err, code |-> d.code, ty |-> 0, id |-> 0, clen |-> 0, plen |-> 0]
HdDecInputs ==
     { << v, ty, (v * 7 + ty) % 256, (ty * 13 + 5) % 256, (v + 3 * ty) % 256, (v * ty) % 256, (v + ty) % 256, ty % 3 >> : v \in 0..255, ty \in (IF Full THEN 0..255 ELSE 0..15 \cup {127, 128, 254, 255}) }
  \cup { << 1, ty >> \o U16BE(id) \o U16BE(cl) \o << pl, r >> : ty \in {1, 5, 9, 11}, id \in IdSet, cl \in ClenSet, pl \in PlenSet, r \in {0, 168} }
HdEncCases == { LET h == [ver |-> 1, ty |-> ty, id |-> id, clen |-> cl, plen |-> pl] IN
                [t |-> "hd.enc", ty |-> ty, id |-> id, clen |-> cl, plen |-> pl, bytes |-> EncHeader(h)]
                : ty \in KnownTypes, id \in IdSet, cl \in ClenSet, pl \in PlenSet }
PadCases == { [t |-> "pad", len |-> n, pad |-> PadFor(n)] : n \in (IF Full THEN 0..65535 ELSE 0..2100 \cup 65500..65535) }

BeginDecCase(b) == LET d == DecBegin(b) IN [t |-> "begin.dec", bytes |-> b, ok |-> d.ok, role |-> d.role, flags |-> d.flags]
BeginDecInputs ==
     { U16BE(r) \o << r % 2, (r * 3) % 256, r % 7, 0, r % 251, 255 >> : r \in (IF Full THEN 0..65535 ELSE 0..600 \cup {32767, 32768, 65535}) }
  \cup { U16BE(r) \o << f, 0, 0, 0, 0, 0 >> : r \in 0..4, f \in 0..255 }
BeginEncCases == { [t |-> "begin.enc", role |-> r, flags |-> f, id |-> id, body |-> EncBegin(r, f), rec |-> BeginRecord(id, r, f)]
                   : r \in KnownRoles, f \in {0, 1, 2, 247, 255}, id \in IdSet }

AppSet == { <<0, 0, 0, 0>>, <<0, 0, 0, 1>>, <<65, 66, 82, 84>>, <<217, 243, 46, 124>>, <<255, 255, 255, 255>> }
EndDecCase(b) == LET d == DecEnd(b) IN
  IF d.ok THEN [t |-> "end.dec", bytes |-> b, ok |-> TRUE, app |-> d.app, pstat |-> d.pstat]
  ELSE [t |-> "end.dec", bytes |-> b, ok |-> FALSE, app |-> <<>>, pstat |-> d.code]
EndDecInputs == { a \o << p, p % 5, 0, (p * 3) % 256 >> : a \in AppSet, p \in 0..255 }
EndEncCases == { [t |-> "end.enc", app |-> a, pstat |-> p, id |-> id, body |-> EncEnd(a, p), rec |-> EndRecord(id, a, p)]
                 : a \in AppSet, p \in KnownStatuses, id \in IdSet }
UnkCases == { [t |-> "unk", ty |-> ty, id |-> id, body |-> EncUnknown(ty), rec |-> UnknownRecord(id, ty)]
              : ty \in 0..255, id \in {0, 1, 30376, 65535} }
ExitCases == { LET e == ExitToEnd(k, a) IN [t |-> "exit", kind |-> k, app |-> a, eapp |-> e.app, pstat |-> e.pstat,
                                            epi |-> Epilogue(id, k, a, st), id |-> id, streams |-> st]
               : k \in {"complete", "overloaded", "unknownrole"}, a \in AppSet, id \in {1, 60789, 65535}, st \in { <<>>, <<6, 7>> } }

\* connection limits at every decimal-length boundary, as digit strings
Nines(n) == [i \in 1..n |-> 9]
OneZeros(n) == [i \in 1..n |-> IF i = 1 THEN 1 ELSE 0]
UsizeMax == << 1,8,4,4,6,7,4,4,0,7,3,7,0,9,5,5,1,6,1,5 >>
DigitSets == { Nines(n) : n \in 1..19 } \cup { OneZeros(n) : n \in 1..20 } \cup { UsizeMax, <<1, 8, 3>>, <<4, 2>> }
VarSubsets == SUBSET {1, 2, 4}
GvrCases == { [t |-> "gvr", vars |-> vs, digits |-> dg, prefill |-> pf, bytes |-> GetValuesResult(vs, dg)]
              : vs \in VarSubsets, dg \in DigitSets, pf \in {0, 1, 8, 13} }

LawHd ==
  /\ c.t = "hd.dec" =>
       LET b == c.bytes IN
       /\ c.ok <=> (b[1] = 1 /\ b[2] \in 1..11)
       /\ ~c.ok => (IF b[1] # 1 THEN c.err = "version" /\ c.code = b[1] ELSE c.err = "type" /\ c.code = b[2])
       /\ c.ok => EncHeader([ver |-> 1, ty |-> c.ty, id |-> c.id, clen |-> c.clen, plen |-> c.plen]) = [b EXCEPT ![8] = 0]
  /\ c.t = "hd.enc" =>
       LET d == DecHeader(c.bytes) IN
       /\ Len(c.bytes) = 8 /\ d.ok /\ d.ty = c.ty /\ d.id = c.id /\ d.clen = c.clen /\ d.plen = c.plen
       /\ \A i \in 1..8 : c.bytes[i] \in Byte
  /\ c.t = "pad" => c.pad \in 0..7 /\ (c.len + c.pad) % 8 = 0 /\ (c.len % 8 = 0 => c.pad = 0)

LawBodies ==
  /\ c.t = "begin.dec" => /\ c.ok <=> FromU16BE(c.bytes, 1) \in 1..3
                          /\ c.ok => SubSeq(EncBegin(c.role, c.flags), 1, 3) = SubSeq(c.bytes, 1, 3)
  /\ c.t = "begin.enc" => /\ LET d == DecBegin(c.body) IN d.ok /\ d.role = c.role /\ d.flags = c.flags
                          /\ Len(c.rec) = 16 /\ SubSeq(c.rec, 9, 16) = c.body
                          /\ LET h == DecHeader(SubSeq(c.rec, 1, 8)) IN h.ok /\ h.ty = TBegin /\ h.id = c.id /\ h.clen = 8 /\ h.plen = 0
  /\ c.t = "end.dec" => /\ c.ok <=> c.bytes[5] \in 0..3
                        /\ c.ok => SubSeq(EncEnd(c.app, c.pstat), 1, 5) = SubSeq(c.bytes, 1, 5)
  /\ c.t = "end.enc" => /\ LET d == DecEnd(c.body) IN d.ok /\ d.app = c.app /\ d.pstat = c.pstat
                        /\ LET h == DecHeader(SubSeq(c.rec, 1, 8)) IN h.ok /\ h.ty = TEnd /\ h.id = c.id /\ h.clen = 8 /\ h.plen = 0
                        /\ SubSeq(c.rec, 9, 16) = c.body
  /\ c.t = "unk" => /\ c.body[1] = c.ty /\ \A i \in 2..8 : c.body[i] = 0
                    /\ LET h == DecHeader(SubSeq(c.rec, 1, 8)) IN h.ok /\ h.ty = TUnknown /\ h.id = c.id /\ h.clen = 8 /\ h.plen = 0
                    /\ SubSeq(c.rec, 9, 16) = c.body
  /\ c.t = "exit" => /\ (c.kind = "complete" => c.pstat = 0 /\ c.eapp = c.app)
                     /\ (c.kind = "overloaded" => c.pstat = 2 /\ c.eapp = <<0, 0, 0, 0>>)
                     /\ (c.kind = "unknownrole" => c.pstat = 3 /\ c.eapp = <<0, 0, 0, 0>>)
                     /\ Len(c.epi) = 8 * Len(c.streams) + 16
                     /\ \A i \in 1..Len(c.streams) :
                          LET h == DecHeader(SubSeq(c.epi, 8 * i - 7, 8 * i)) IN
                          h.ok /\ h.ty = c.streams[i] /\ h.id = c.id /\ h.clen = 0 /\ h.plen = 0
                     /\ LET o == 8 * Len(c.streams)
                            h == DecHeader(SubSeq(c.epi, o + 1, o + 8))
                            e == DecEnd(SubSeq(c.epi, o + 9, o + 16)) IN
                        h.ok /\ h.ty = TEnd /\ h.id = c.id /\ h.clen = 8 /\ e.ok /\ e.app = c.eapp /\ e.pstat = c.pstat

LawGvr ==
  c.t = "gvr" =>
    LET b == c.bytes
        h == DecHeader(SubSeq(b, 1, 8))
        body == SubSeq(b, 9, 8 + h.clen)
        d == DecNVAll(body)
        want == SelectSeq(VarBits, LAMBDA x : x \in c.vars)
    IN /\ h.ok /\ h.ty = TGetValuesResult /\ h.id = 0
       /\ Len(b) = 8 + h.clen + h.plen /\ h.plen = PadFor(h.clen) /\ Len(b) % 8 = 0
       /\ Len(b) <= ResponseMaxLen /\ Len(b) = GetValuesResultLen(c.vars, Len(c.digits))
       /\ \A i \in 9 + h.clen .. Len(b) : b[i] = 0
       /\ d.rest = Len(body) /\ Len(d.pairs) = Len(want)
       /\ \A i \in 1..Len(want) :
            /\ SubSeq(body, d.pairs[i].ns + 1, d.pairs[i].ne) = VarName(want[i])
            /\ SubSeq(body, d.pairs[i].vs + 1, d.pairs[i].ve) = VarValue(want[i], c.digits)


Init == \/ c \in { HdDecCase(b) : b \in HdDecInputs }
        \/ c \in HdEncCases
        \/ c \in PadCases
        \/ c \in { BeginDecCase(b) : b \in BeginDecInputs }
        \/ c \in BeginEncCases
        \/ c \in { EndDecCase(b) : b \in EndDecInputs }
        \/ c \in EndEncCases
        \/ c \in UnkCases
        \/ c \in ExitCases
        \/ c \in GvrCases
Next == UNCHANGED c
Spec == Init /\ [][Next]_c
Laws == LawHd /\ LawBodies /\ LawGvr
Emit == PrintT(ToJson(c))
=============================================================================
