SPECIFICATION Spec
CONSTANT Full = TRUE
INVARIANT Laws
INVARIANT Emit
CHECK_DEADLOCK FALSE
