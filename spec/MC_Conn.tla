------------------------------- MODULE MC_Conn -------------------------------
(***************************************************************************)
(* Model-checking wrapper for Conn: a menu of scenarios (peer script with  *)
(* release conditions, handler programs, fault), every outcome of every    *)
(* transport call (how many bytes a read returns / a write accepts,        *)
(* spurious Pending, EOF, errors), shutdown requests at every suspension.  *)
(* Invariants state C07 C08 C09 C11 C12 C14; every behaviour is printed at *)
(* its end (connection ended, or suspended on a read the peer will not     *)
(* satisfy) and replayed on the real Token::run by the harness.            *)
(***************************************************************************)
EXTENDS Conn, Json, SequencesExt, FiniteSetsExt, TLC

CONSTANTS Menu,      \* scenario families
          Sizes,     \* "ends": transport calls move 1 byte or everything; "all": any amount
          Spurious,  \* TRUE: a transport call may return Pending once per offset
          Stops,     \* TRUE: shutdown may be requested at every suspension
          Faults,    \* subset of {"eof", "rerr", "werr", "wzero"}: one fault per behaviour at every offset
          MaxCuts,   \* at most this many transport calls per behaviour move less than everything (at any offset)
          MaxPend    \* at most this many spurious Pending results per behaviour

VARIABLES si, sc, c, hist, used
vars == <<si, sc, c, hist, used>>

Own == 1
Other == 2

\* ------------------------------------------------------------------ scenario construction
PreItems(id, role, flags, pairsLen) ==
  << IBegin(id, role, flags, 0) >> \o (IF pairsLen > 0 THEN << IParams(id, pairsLen, 0) >> ELSE <<>>) \o << IParams(id, 0, 0) >>
GVq == IGetValues(0, << [size |-> 16, var |-> 1] >>, 0, 0)
UKq == IRaw(1, 200, 0, 0, 0)

ItemsLenW(items) == MkWire(items, <<>>, 0).len

NoFault == [k |-> "none", at |-> 0]
G(at, kind, n) == [at |-> at, kind |-> kind, n |-> n]
Propagate == [kind |-> "propagate", app |-> "0"]

Sc(tag, items, pairLists, gates, close, progs, onAbort) ==
  [tag |-> tag, w |-> MkWire(items, pairLists, 0), gates |-> gates, close |-> close, progs |-> progs,
   onAbort |-> onAbort, fault |-> NoFault]

ReadAllRet == << OpReadAll(4), OpRet(StOk("0")) >>
EchoProg == << OpReadAll(2), OpWrite(TStdout, 5), OpWrite(TStderr, 1), OpFlush(TStdout), OpRet(StOk("7")) >>
LazyProg == << OpWrite(TStdout, 3), OpRet([kind |-> "overloaded", app |-> "0"]) >>
PartProg == << OpRead(2), OpFill, OpConsume(1), OpRet([kind |-> "unknownrole", app |-> "0"]) >>
FilterProg == << OpReadAll(3), OpSetStream(TData), OpReadAll(64), OpWrite(TStdout, 8), OpRet(StOk("0")) >>
FilterWr == << OpRead(1), OpWriteable, OpWrite(TStdout, 2), OpReadAll(2), OpRet(StOk("0")) >>
AuthProg == << OpWrite(TStdout, 9), OpRet(StOk("0")) >>

OneParam == << << PSpec(1, 1, 1, 1, 1) >> >>

\* family "basic": one or two requests, all handler programs, keep-conn both ways
Basic ==
  LET r1(role, flags) == PreItems(Own, role, flags, 0)
      stdin == << IStream(TStdin, Own, 3, 1), IStream(TStdin, Own, 0, 0) >>
      data == << IStream(TData, Own, 2, 0), IStream(TData, Own, 0, 0) >>
  IN {
    Sc("resp-echo", r1(1, 0) \o stdin, << <<>> >>, <<>>, FALSE, << EchoProg >>, << Propagate >>),
    Sc("resp-lazy-keep", r1(1, 1) \o stdin, << <<>> >>, <<>>, TRUE, << LazyProg >>, << Propagate >>),
    Sc("resp-part-keep", r1(1, 1) \o stdin, << <<>> >>, <<>>, TRUE, << PartProg >>, << Propagate >>),
    Sc("auth", r1(2, 1), << <<>> >>, <<>>, TRUE, << AuthProg >>, << Propagate >>),
    \* input records larger than the buffer, left unread by the handler: close() has to skip them through the buffer
    Sc("part-big-keep", r1(1, 1) \o << IStream(TStdin, Own, 41, 3), IStream(TStdin, Own, 0, 0) >> \o PreItems(Other, 1, 0, 0) \o << IStream(TStdin, Other, 0, 0) >>,
       << <<>>, <<>> >>, <<>>, TRUE, << PartProg, ReadAllRet >>, << Propagate, Propagate >>),
    Sc("lazy-big-keep", r1(1, 1) \o << IStream(TStdin, Own, 30, 0), IStream(TStdin, Own, 27, 5), IStream(TStdin, Own, 0, 0) >> \o PreItems(Other, 1, 0, 0) \o << IStream(TStdin, Other, 0, 0) >>,
       << <<>>, <<>> >>, <<>>, TRUE, << LazyProg, ReadAllRet >>, << Propagate, Propagate >>),
    \* Filter requests whose handler returns before it reaches the Data stream: close() has to advance the request itself
    Sc("filter-none", r1(3, 1) \o stdin \o data \o PreItems(Other, 1, 0, 0) \o << IStream(TStdin, Other, 0, 0) >>, << <<>>, <<>> >>, <<>>, TRUE,
       << << OpRet(StOk("3")) >>, ReadAllRet >>, << Propagate, Propagate >>),
    Sc("filter-stdin-part", r1(3, 0) \o stdin \o data, << <<>> >>, <<>>, TRUE, << << OpRead(2), OpRet(StOk("0")) >> >>, << Propagate >>),
    Sc("filter-stdin-all", r1(3, 1) \o stdin \o data, << <<>> >>, <<>>, FALSE, << << OpReadAll(4), OpFill, OpRet([kind |-> "overloaded", app |-> "0"]) >> >>, << Propagate >>),
    Sc("idle-keep", r1(1, 1) \o stdin, << <<>> >>, <<>>, FALSE, << LazyProg >>, << Propagate >>),
    Sc("filter", r1(3, 0) \o stdin \o data, << <<>> >>, <<>>, FALSE, << FilterProg >>, << Propagate >>),
    Sc("filter-wr", r1(3, 1) \o stdin \o data, << <<>> >>, <<>>, TRUE, << FilterWr >>, << Propagate >>),
    Sc("two-keep",
       LET a == r1(1, 1) \o stdin IN a \o PreItems(Other, 1, 0, 4) \o << IStream(TStdin, Other, 0, 0) >>,
       << <<>>, << PSpec(1, 1, 1, 1, 1) >> >>,
       << G(ItemsLenW(r1(1, 1) \o stdin), "end", 1) >>, TRUE, << EchoProg, ReadAllRet >>, << Propagate, Propagate >>)
  }

\* family "query": management queries at every point the protocol allows, the peer waits for each result
Query ==
  LET pre == PreItems(Own, 1, 1, 0)
      s3 == IStream(TStdin, Own, 3, 0)
      s0 == IStream(TStdin, Own, 0, 0)
      next == PreItems(Other, 1, 0, 0) \o << IStream(TStdin, Other, 0, 0) >>
      Len_(x) == ItemsLenW(x)
  IN {
    \* before the first request
    Sc("q-before", << GVq >> \o pre \o << s0 >>, << <<>> >>, << G(Len_(<< GVq >>), "reply", 1) >>, TRUE, << ReadAllRet >>, << Propagate >>),
    \* in the same transport read as the end of a request, then the next request only after the reply
    Sc("q-same-read", pre \o << s0, GVq >> \o next, << <<>>, <<>> >>,
       << G(Len_(pre \o << s0, GVq >>), "reply", 1) >>, TRUE, << ReadAllRet, ReadAllRet >>, << Propagate, Propagate >>),
    \* between requests (after EndRequest was observed)
    Sc("q-between", pre \o << s0, UKq >> \o next, << <<>>, <<>> >>,
       << G(Len_(pre \o << s0 >>), "end", 1), G(Len_(pre \o << s0, UKq >>), "reply", 1) >>, TRUE, << ReadAllRet, ReadAllRet >>, << Propagate, Propagate >>),
    \* in the middle of the Params stream (the reply is produced by the parse call that may also finish the preamble)
    Sc("q-in-params", << IBegin(Own, 1, 1, 0), IParams(Own, 4, 0), GVq, IParams(Own, 0, 0), s3, s0 >>, << << PSpec(1, 1, 1, 1, 1) >> >>,
       << G(Len_(<< IBegin(Own, 1, 1, 0), IParams(Own, 4, 0), GVq, IParams(Own, 0, 0) >>), "reply", 1) >>, TRUE, << ReadAllRet >>, << Propagate >>),
    \* right after Params
    Sc("q-after-params", pre \o << GVq, s3, s0 >>, << <<>> >>, << G(Len_(pre \o << GVq >>), "reply", 1) >>, TRUE, << ReadAllRet >>, << Propagate >>),
    \* mid-stream while the handler is blocked reading
    Sc("q-mid-stream", pre \o << s3, GVq, s3, s0 >>, << <<>> >>, << G(Len_(pre \o << s3, GVq >>), "reply", 1) >>, TRUE, << ReadAllRet >>, << Propagate >>),
    Sc("q-mid-stream-uk", pre \o << s3, UKq, s0 >>, << <<>> >>, << G(Len_(pre \o << s3, UKq >>), "reply", 1) >>, TRUE, << EchoProg >>, << Propagate >>),
    \* handler that stops in the middle of a record: close() must work off what is already buffered (the rest of the
    \* record and the query behind it) before it waits for more input
    Sc("q-part-record", pre \o << IStream(TStdin, Own, 5, 0), GVq, s0 >> \o next, << <<>>, <<>> >>,
       << G(Len_(pre \o << IStream(TStdin, Own, 5, 0), GVq >>), "reply", 1) >>, TRUE, << << OpRead(2), OpRet(StOk("0")) >>, ReadAllRet >>, << Propagate, Propagate >>),
    Sc("q-part-record-uk", pre \o << IStream(TStdin, Own, 9, 3), UKq >> \o next, << <<>>, <<>> >>,
       << G(Len_(pre \o << IStream(TStdin, Own, 9, 3), UKq >>), "reply", 1) >>, TRUE, << PartProg, ReadAllRet >>, << Propagate, Propagate >>),
    \* handler that does not read: the query travels in the leftover
    Sc("q-unread", pre \o << GVq, s0 >> \o next, << <<>>, <<>> >>, << G(Len_(pre \o << GVq, s0 >>), "reply", 1) >>, TRUE, << LazyProg, ReadAllRet >>, << Propagate, Propagate >>)
  }

\* family "abort": AbortRequest after every record
Abort ==
  LET pre == PreItems(Own, 1, 1, 4)
      s3 == IStream(TStdin, Own, 3, 0)
      s0 == IStream(TStdin, Own, 0, 0)
      ab == IAbort(Own, 2, 1)
      next == PreItems(Other, 1, 0, 0) \o << IStream(TStdin, Other, 0, 0) >>
      OwnStatus == [kind |-> "complete", app |-> "9"]
  IN {
    Sc("ab-params", << IBegin(Own, 1, 1, 0), IParams(Own, 4, 0), ab >> \o next, << << PSpec(1, 1, 1, 1, 1) >>, <<>> >>, <<>>, TRUE, << ReadAllRet >>, << Propagate >>),
    Sc("ab-after-params", pre \o << ab >> \o next, << << PSpec(1, 1, 1, 1, 1) >>, <<>> >>, <<>>, TRUE, << ReadAllRet, ReadAllRet >>, << Propagate, Propagate >>),
    Sc("ab-mid-stream", pre \o << s3, ab, s0 >> \o next, << << PSpec(1, 1, 1, 1, 1) >>, <<>> >>, <<>>, TRUE, << EchoProg, ReadAllRet >>, << Propagate, Propagate >>),
    Sc("ab-own-status", pre \o << s3, ab >> \o next, << << PSpec(1, 1, 1, 1, 1) >>, <<>> >>, <<>>, TRUE, << ReadAllRet, ReadAllRet >>, << OwnStatus, Propagate >>),
    Sc("ab-not-reading", pre \o << s3, ab, s0 >> \o next, << << PSpec(1, 1, 1, 1, 1) >>, <<>> >>, <<>>, TRUE, << LazyProg, ReadAllRet >>, << Propagate, Propagate >>),
    Sc("ab-past-eos", pre \o << s3, s0, ab >> \o next, << << PSpec(1, 1, 1, 1, 1) >>, <<>> >>, <<>>, TRUE, << EchoProg, ReadAllRet >>, << Propagate, Propagate >>),
    \* the abort arrives while close() is skipping the rest of a record the handler left unread
    Sc("ab-during-close", pre \o << IStream(TStdin, Own, 9, 0), ab >> \o next, << << PSpec(1, 1, 1, 1, 1) >>, <<>> >>, <<>>, TRUE,
       << << OpRead(2), OpRet(StOk("0")) >>, ReadAllRet >>, << Propagate, Propagate >>),
    Sc("ab-other-id", pre \o << s3, IAbort(Other, 0, 0), s0 >>, << << PSpec(1, 1, 1, 1, 1) >> >>, <<>>, TRUE, << EchoProg >>, << Propagate >>),
    Sc("ab-filter", PreItems(Own, 3, 1, 0) \o << s3, s0, IStream(TData, Own, 2, 0), ab >> \o next, << <<>>, <<>> >>, <<>>, TRUE, << FilterProg, ReadAllRet >>, << Propagate, Propagate >>)
  }

\* family "reads": every mix of direct and buffered reads, stream selection and writeable() (C09)
Reads ==
  LET fw == PreItems(Own, 3, 1, 0) \o << IStream(TStdin, Own, 3, 1), GVq, IStream(TStdin, Own, 1, 0), IStream(TStdin, Own, 0, 0),
                                          IStream(TData, Own, 2, 0), UKq, IStream(TData, Own, 0, 0) >>
      rw == PreItems(Own, 1, 0, 0) \o << IStream(TStdin, Own, 2, 0), UKq, IStream(TStdin, Own, 3, 0), IStream(TStdin, Own, 0, 0) >>
      P1 == << OpRead(0), OpRead(1), OpReadAll(2), OpRead(5), OpSetStream(TData), OpReadAll(3), OpRead(1), OpWrite(TStdout, 1), OpRet(StOk("0")) >>
      P2 == << OpFill, OpConsume(1), OpFill, OpConsume(64), OpFill, OpConsume(1), OpFill, OpWriteable, OpFill, OpConsume(64), OpFill, OpRet(StOk("0")) >>
      P3 == << OpRead(1), OpSetStream(TData), OpReadAll(64), OpSetStream(TStdin), OpRead(1), OpRet(StOk("0")) >>
      P4 == << OpWriteable, OpFill, OpConsume(1), OpReadAll(1), OpWrite(TStderr, 2), OpRet(StOk("0")) >>
      P5 == << OpRead(2), OpFill, OpConsume(1), OpRead(64), OpRead(64), OpFill, OpSetStream(TData), OpRead(1), OpRet(StOk("0")) >>
      P6 == << OpSetStream(TStdin), OpFill, OpSetStream(TStdin), OpRead(2), OpSetStream(TData), OpSetStream(TData), OpFill, OpConsume(1), OpReadAll(2), OpRet(StOk("0")) >>
      \* selecting the stream that is already active in the middle of a record changes nothing (direct and buffered reads)
      P7 == << OpRead(1), OpSetStream(TStdin), OpReadAll(2), OpRet(StOk("0")) >>
      P8 == << OpFill, OpConsume(1), OpSetStream(TStdin), OpFill, OpConsume(64), OpReadAll(2), OpRet(StOk("0")) >>
  IN { Sc("rd-resp-7", rw, << <<>> >>, <<>>, TRUE, << P7 >>, << Propagate >>),
       Sc("rd-filter-8", fw, << <<>> >>, <<>>, TRUE, << P8 >>, << Propagate >>),
       Sc("rd-filter-1", fw, << <<>> >>, <<>>, TRUE, << P1 >>, << Propagate >>),
       Sc("rd-filter-2", fw, << <<>> >>, <<>>, TRUE, << P2 >>, << Propagate >>),
       Sc("rd-filter-3", fw, << <<>> >>, <<>>, TRUE, << P3 >>, << Propagate >>),
       Sc("rd-filter-4", fw, << <<>> >>, <<>>, TRUE, << P4 >>, << Propagate >>),
       Sc("rd-filter-6", fw, << <<>> >>, <<>>, TRUE, << P6 >>, << Propagate >>),
       Sc("rd-resp-5", rw, << <<>> >>, <<>>, TRUE, << P5 >>, << Propagate >>),
       Sc("rd-resp-2", rw, << <<>> >>, <<>>, TRUE, << P2 >>, << Propagate >>) }

\* family "beyond": behaviour the code has but no listed property assumes - clients that pipeline requests without
\* waiting, attempt to multiplex, or send unknown roles; the specification follows the code (close() may run through
\* the records of a pipelined request while it looks for a record boundary) and the replay binds it
Beyond ==
  LET pre == PreItems(Own, 1, 1, 0)
      s3 == IStream(TStdin, Own, 3, 1)
      s0 == IStream(TStdin, Own, 0, 0)
      next == PreItems(Other, 1, 0, 0) \o << IStream(TStdin, Other, 0, 0) >>
  IN {
    Sc("pipeline-read", pre \o << s3, s0 >> \o next, << <<>>, <<>> >>, <<>>, TRUE, << EchoProg, ReadAllRet >>, << Propagate, Propagate >>),
    Sc("pipeline-unread", pre \o << s3, s0 >> \o next, << <<>>, <<>> >>, <<>>, TRUE, << LazyProg, ReadAllRet >>, << Propagate, Propagate >>),
    Sc("pipeline-part", pre \o << IStream(TStdin, Own, 5, 3), s0 >> \o next, << <<>>, <<>> >>, <<>>, TRUE, << PartProg, ReadAllRet >>, << Propagate, Propagate >>),
    Sc("mpx-in-params", << IBegin(Own, 1, 1, 0), IBegin(Other, 1, 0, 0), IParams(Own, 0, 0), s3, s0 >>, << <<>> >>, <<>>, TRUE, << EchoProg >>, << Propagate >>),
    Sc("mpx-in-stream", pre \o << s3, IBegin(Other, 1, 0, 0), IParams(Other, 0, 0), s0 >>, << <<>> >>, <<>>, TRUE, << EchoProg >>, << Propagate >>),
    Sc("unknown-role", << IBegin(Own, 9, 1, 0) >> \o next, << <<>> >>, <<>>, TRUE, << ReadAllRet >>, << Propagate >>),
    Sc("bad-version-mid", pre \o << s3, IRaw(7, TStdin, Own, 0, 0) >>, << <<>> >>, <<>>, TRUE, << ReadAllRet >>, << Propagate >>),
    Sc("null-request", << IBegin(0, 1, 0, 0) >>, << >>, <<>>, TRUE, << ReadAllRet >>, << Propagate >>)
  }

WithFaults(S) ==
  S \cup UNION { UNION {
       (IF "eof" \in Faults THEN { [x EXCEPT !.fault = [k |-> "eof", at |-> o], !.tag = x.tag \o "+eof"] : o \in 0..x.w.len } ELSE {})
       \cup (IF "rerr" \in Faults THEN { [x EXCEPT !.fault = [k |-> "rerr", at |-> o], !.tag = x.tag \o "+rerr"] : o \in {0, 8, 16, 24, 27, 32, x.w.len} \cap 0..x.w.len } ELSE {})
       \cup (IF "werr" \in Faults THEN { [x EXCEPT !.fault = [k |-> "werr", at |-> o], !.tag = x.tag \o "+werr"] : o \in 0..72 } ELSE {})
       \cup (IF "wzero" \in Faults THEN { [x EXCEPT !.fault = [k |-> "wzero", at |-> o], !.tag = x.tag \o "+wzero"] : o \in {0, 3, 8, 16, 21, 24, 40} } ELSE {})
     } : x \in S }

ScSet == WithFaults((IF "basic" \in Menu THEN Basic ELSE {}) \cup (IF "query" \in Menu THEN Query ELSE {}) \cup (IF "abort" \in Menu THEN Abort ELSE {})
                      \cup (IF "reads" \in Menu THEN Reads ELSE {}) \cup (IF "beyond" \in Menu THEN Beyond ELSE {}))
ScSeq == TLCEval(SetToSeq(ScSet))

\* ------------------------------------------------------------------ behaviour
Init ==
  /\ si \in 1..Len(ScSeq)
  /\ sc = ScSeq[si]
  /\ c = CInit(sc)
  /\ hist = <<>> /\ used = [cuts |-> 0, pends |-> 0]
  /\ PrintT(ToJson([t |-> "case", c |-> si, B |-> B, scen |-> sc]))

Amounts(m) == IF used.cuts >= MaxCuts THEN {m} ELSE IF Sizes = "all" THEN 1..m ELSE {1, m}
Cut(k, m) == [used EXCEPT !.cuts = IF k < m THEN used.cuts + 1 ELSE used.cuts]
Pend == [used EXCEPT !.pends = used.pends + 1]
Avail == Released(sc, c) - c.inRead
FaultAt(k, o) == sc.fault.k = k /\ sc.fault.at = o

\* first poll of the task (select is polled, then the request future)
Start == hist = <<>> /\ c.pc = "PR_top" /\ c' = Run(sc, c) /\ hist' = << << "go" >> >> /\ UNCHANGED <<si, sc, used>>
StartStopped == Stops /\ hist = <<>> /\ c.pc = "PR_top" /\ c' = Run(sc, [c EXCEPT !.stop = TRUE]) /\ hist' = << << "stop" >> >> /\ UNCHANGED <<si, sc, used>>

DoRead ==
  /\ c.pc \in ReadPcs /\ Avail > 0 /\ ReadCap(c) > 0 /\ ~FaultAt("rerr", c.inRead)
  /\ \E n \in Amounts(Min2(ReadCap(c), Avail)) :
       /\ c' = Run(sc, AfterRead(sc, c, n))
       /\ hist' = Append(hist, << "r", n >>)
       /\ used' = Cut(n, Min2(ReadCap(c), Avail))
  /\ UNCHANGED <<si, sc>>

DoEof ==
  /\ c.pc \in ReadPcs /\ AtEof(sc, c) /\ ~FaultAt("rerr", c.inRead)
  /\ c' = Run(sc, AfterRead(sc, c, 0)) /\ hist' = Append(hist, << "r", 0 >>)
  /\ UNCHANGED <<si, sc, used>>

\* reading into an empty buffer yields 0 bytes at once (what real transports and the mock do)
DoReadEmpty ==
  /\ c.pc \in ReadPcs /\ ReadCap(c) = 0 /\ ~FaultAt("rerr", c.inRead) /\ ~AtEof(sc, c)
  /\ c' = Run(sc, AfterRead(sc, c, 0)) /\ hist' = Append(hist, << "r0" >>)
  /\ UNCHANGED <<si, sc, used>>

DoReadErr ==
  /\ c.pc \in ReadPcs /\ FaultAt("rerr", c.inRead)
  /\ c' = Run(sc, ReadFails(sc, c)) /\ hist' = Append(hist, << "re" >>)
  /\ UNCHANGED <<si, sc, used>>

\* A write fault is a property of the transport, not of the caller's grouping of bytes into calls: the transport
\* breaks once exactly fault.at bytes have been accepted.  A call that starts before that offset is accepted at most
\* up to it (a short write the behaviour is not charged for), the call that starts at it fails.
WriteLimit == IF sc.fault.k \in {"werr", "wzero"} /\ c.outw < sc.fault.at THEN Min2(c.wrem, sc.fault.at - c.outw) ELSE c.wrem
DoWrite ==
  /\ c.pc \in WritePcs /\ ~FaultAt("werr", c.outw) /\ ~FaultAt("wzero", c.outw)
  /\ \E k \in Amounts(WriteLimit) :
       /\ c' = Run(sc, AfterWrite(sc, c, k))
       /\ hist' = Append(hist, << "w", k >>)
       /\ used' = Cut(k, WriteLimit)
  /\ UNCHANGED <<si, sc>>

DoWriteErr ==
  /\ c.pc \in WritePcs /\ (FaultAt("werr", c.outw) \/ FaultAt("wzero", c.outw))
  /\ c' = Run(sc, WriteFails(sc, c, IF sc.fault.k = "werr" THEN "Other" ELSE "WriteZero"))
  /\ hist' = Append(hist, << "we" >>)
  /\ UNCHANGED <<si, sc, used>>

\* a transport call returns Pending although it could make progress; the task is polled again later
SpurR ==
  /\ Spurious /\ used.pends < MaxPend /\ c.pc \in ReadPcs /\ Avail > 0 /\ c.inRead \notin c.rpend
  /\ \E st \in (IF Stops /\ ~c.stop THEN {FALSE, TRUE} ELSE {FALSE}) :
       /\ c' = Run(sc, Repoll(sc, [c EXCEPT !.rpend = c.rpend \cup {c.inRead}, !.stop = c.stop \/ st]))
       /\ hist' = Append(hist, IF st THEN << "rp", "stop" >> ELSE << "rp" >>)
  /\ used' = Pend /\ UNCHANGED <<si, sc>>
SpurW ==
  /\ Spurious /\ used.pends < MaxPend /\ c.pc \in WritePcs /\ c.outw \notin c.wpend
  /\ \E st \in (IF Stops /\ ~c.stop THEN {FALSE, TRUE} ELSE {FALSE}) :
       /\ c' = Run(sc, Repoll(sc, [c EXCEPT !.wpend = c.wpend \cup {c.outw}, !.stop = c.stop \/ st]))
       /\ hist' = Append(hist, IF st THEN << "wp", "stop" >> ELSE << "wp" >>)
  /\ used' = Pend /\ UNCHANGED <<si, sc>>
\* shutdown requested while the task is suspended on a read the peer will not satisfy
StopParked ==
  /\ Stops /\ ~c.stop /\ ParkedOnRead(sc, c)
  /\ c' = Run(sc, Repoll(sc, [c EXCEPT !.stop = TRUE]))
  /\ hist' = Append(hist, << "park", "stop" >>)
  /\ UNCHANGED <<si, sc, used>>

Next == Start \/ StartStopped \/ DoRead \/ DoEof \/ DoReadEmpty \/ DoReadErr \/ DoWrite \/ DoWriteErr \/ SpurR \/ SpurW \/ StopParked
Spec == Init /\ [][Next]_vars

\* ------------------------------------------------------------------ end of a behaviour, what the harness compares
AtEnd == hist # <<>> /\ (c.pc = "Ended" \/ ParkedOnRead(sc, c))
Obs == [ended |-> c.ended, parked |-> c.pc # "Ended", inRead |-> c.inRead, outw |-> c.outw, out |-> c.outSeq,
        hlog |-> c.hlog, nreq |-> c.nreq, stop |-> c.stop]
Emit == AtEnd => PrintT(ToJson([t |-> "beh", c |-> si, h |-> hist, obs |-> Obs]))

\* ------------------------------------------------------------------ invariants
\* C08: suspended waiting for input the peer withholds => every reply owed for what was read has been handed over
NoOwedReplyWhileWaiting ==
  ParkedOnRead(sc, c) => CountMgmt(Observed(c)) >= OwedUpTo(sc.w, 1, c.inRead)

\* C08: the peer and the server never wait for each other: a suspension with bytes still withheld is only
\* legitimate when the gate that holds them waits for something the handler still has to produce
NoWaitCycle ==
  (ParkedOnRead(sc, c) /\ Released(sc, c) < sc.w.len /\ sc.fault.k = "none" /\ ~c.stop) =>
     \E i \in 1..Len(sc.gates) : ~GateOpen(c, sc.gates[i]) /\ sc.gates[i].kind = "end" /\ c.phase # "req"

\* C07: handler invocations = complete preambles served; each at most once per request
Begins == SelectSeq(c.hlog, LAMBDA e : e.op = "begin")
OneHandlerPerRequest == Len(Begins) = c.nreq /\ c.nreq <= Len(sc.progs)

\* C07: every EndRequest is preceded by the empty records of both output streams iff the request was
\* writeable, and carries the id of the request being served
EndItems == { i \in 1..Len(c.outSeq) : c.outSeq[i].k = "end" }
EpilogueShape ==
  \A i \in EndItems :
    \/ i >= 3 /\ c.outSeq[i - 1].k = "eos" /\ c.outSeq[i - 1].s = TStderr /\ c.outSeq[i - 2].k = "eos" /\ c.outSeq[i - 2].s = TStdout
       /\ c.outSeq[i - 1].id = c.outSeq[i].id /\ c.outSeq[i - 2].id = c.outSeq[i].id
    \/ (i = 1 \/ c.outSeq[i - 1].k # "eos")
\* C07: the connection is given up as "closed by the client" only if the client closed it; a request
\* without the keep-connection flag ends it, nothing else does in the absence of faults and shutdown
ReuseIff ==
  /\ c.ended = "reset" => AtEof(sc, c)
  /\ (c.pc = "Ended" /\ sc.fault.k = "none" /\ ~c.stop) => c.ended \in {"reset", "no-keepconn", "parse-error", "close-parse-error"}
\* C14: no handler invocation begins after a shutdown request was seen by the task
NoHandlerAfterStop == [][(c.stop /\ c.phase = "req") => c'.nreq = c.nreq]_vars
=============================================================================
