SPECIFICATION Spec
CONSTANTS
  B = 24
  Menu = {"cuts", "pad", "inter", "hostile", "trunc", "bound"}
  Feed = "quick"
VIEW View
ACTION_CONSTRAINT Emit
INVARIANTS Geometry NeverFullUnlessStuck PrefixDetermined RepliesExact OutcomeExact BoundSuffices
PROPERTIES StickyFatal DoneSticky
CHECK_DEADLOCK FALSE
