---------------------------- MODULE MC_ReqParser ----------------------------
(***************************************************************************)
(* Exhaustive model of the request parser on a menu of abstract wires:     *)
(* every partition of each wire into parse(n) calls (n from FeedSizes).    *)
(* Invariants state C01 C03 C04 C06 against the reference semantics of     *)
(* ReqParser.tla; every explored transition is printed once (EDGE) and     *)
(* replayed on the real parser by the harness.                             *)
(***************************************************************************)
EXTENDS ReqParser, Json, SequencesExt, FiniteSetsExt

CONSTANTS B,          \* effective buffer size (multiple of 8, >= 24)
          Menu,       \* which wire families: subset of {"cuts","pad","inter","hostile","bound","trunc"}
          Feed        \* "all": every n in 0..free; "quick": a boundary subset

VARIABLES wi,         \* index of the wire (case) in Wires
          rp,         \* parser state
          fed,        \* bytes handed to the parser so far
          lastOut,    \* replies produced by the last call (hidden from the fingerprint)
          out,        \* all replies so far (history, hidden)
          hist,       \* feed sizes so far (history, hidden)
          canon,      \* canonical (byte-by-byte, unbounded) parser state for the prefix fed
          cstuck      \* first prefix length at which the canonical parser fills B bytes (0: none)
vars == <<wi, rp, fed, lastOut, out, hist, canon, cstuck>>
\* (the last component keeps a state reached by parse(0) apart from its VIEW-equal predecessor, so that histories of the
\* form "..., parse(0), more calls" are emitted too - a call that should change nothing but does shows only there)
View == <<wi, rp, fed, Len(hist) > 0 /\ hist[Len(hist)] = 0>>

Own == 1            \* abstract ids: the encoder maps them to concrete 16-bit ids
Other == 2

\* ------------------------------------------------------------------ pair lists
K1 == 1  K2 == 2  K3 == 3  K0 == 0
K5 == 5   \* name with a valid two-byte UTF-8 sequence inside   (encoder: key % 8 = 5)
K6 == 6   \* name ending in a truncated three-byte sequence      (encoder: key % 8 = 6)
PL == <<
  << PSpec(1, 1, 1, 1, K1) >>,
  << PSpec(4, 2, 4, 1, K1), PSpec(1, 0, 1, 0, K0) >>,
  << PSpec(1, 2, 1, 1, K2), PSpec(1, 2, 1, 2, K2), PSpec(4, 1, 1, 0, K1) >>,
  << PSpec(1, 3, 4, 3, K3) >>,
  << >>,
  << PSpec(4, 5, 4, 6, K3) >>,
  << PSpec(1, 0, 1, 3, K0), PSpec(1, 2, 1, 0, K2), PSpec(1, 0, 1, 1, K0) >>,
  << PSpec(1, 1, 1, 1, K2), PSpec(1, 3, 1, 0, K1) >>,                     \* last pair: empty value, name of 3 bytes
  << PSpec(1, 4, 1, 1, K5), PSpec(4, 3, 1, 0, K6) >>                      \* multi-byte sequences inside / at the end of a name
>>
PLen(i) == LET RECURSIVE S(_)
               S(ps) == IF ps = <<>> THEN 0 ELSE HeadLen(Head(ps)) + Head(ps).n + Head(ps).v + S(Tail(ps))
           IN S(PL[i])

\* all strictly increasing cut sequences of at most k cuts in 1..P-1
CutSeqs(P, k) ==
  LET sets == { s \in SUBSET (1..(P - 1)) : Cardinality(s) <= k }
  IN { SortSeq(SetToSeq(s), <) : s \in sets }

Roles == {1, 2, 3}

ReqItems(role, flags, bpad, pli, cs, pads, endpad) ==
  << IBegin(Own, role, flags, bpad) >>
  \o (IF PLen(pli) = 0 THEN <<>> ELSE ParamsItems(Own, PLen(pli), cs, pads, 1))
  \o << IParams(Own, 0, endpad) >>

GvKnown1 == [size |-> 16, var |-> 1]
GvKnown4 == [size |-> 17, var |-> 4]
GvUnk    == [size |-> 5, var |-> 0]

Extras == <<
  IGetValues(0, << GvKnown1 >>, 0, 0),
  IGetValues(0, << GvUnk, GvKnown4 >>, 1, 2),
  IRaw(1, 200, 5, 3, 1),
  IBegin(Other, 1, 0, 0),
  IStream(TStdin, Other, 2, 0),
  IBegin(Own, 1, 1, 0),
  IGetValues(7, << GvKnown1 >>, 0, 0),
  IGetValues(0, <<>>, 0, 3),
  \* trailing incomplete pair of 8 bytes which the encoder makes read like a record header (must be ignored, not framed)
  IGetValues(0, << GvUnk >>, 8, 0),
  IAbort(Other, 0, 0),
  IParams(Other, 3, 5)
>>

InsAfter(s, k, x) == SubSeq(s, 1, k) \o << x >> \o SubSeq(s, k + 1, Len(s))

W(items, pls, cut, tag, bounded) == [w |-> MkWire(items, pls, cut), tag |-> tag, bounded |-> bounded]

\* ---- family "cuts": every cut of the Params payload into <= 4 (list 2), <= 3 (lists 3, 7) or <= 2 records
CutsFor(i, k) == { cs \in CutSeqs(PLen(i), k) : TRUE }
FamCuts2 ==
  UNION { { W(ReqItems(1, 1, 0, i, cs, <<0>>, 0), << PL[i] >>, 0, "cuts", TRUE) : cs \in CutsFor(i, IF i \in {2} THEN 3 ELSE IF i \in {3, 7, 8, 9} THEN 2 ELSE 1) }
          : i \in {1, 2, 3, 4, 6, 7, 8, 9} }

\* ---- family "pad": roles x flags x paddings (incl. on BeginRequest and the final record)
FamPad ==
  { W(ReqItems(role, fl, bp, i, cs, pads, ep), << PL[i] >>, 0, "pad", TRUE)
      : role \in Roles, fl \in {0, 247}, bp \in {0, 3}, i \in {3, 5}, cs \in { <<>>, <<4>> },
        pads \in { <<1>>, <<7, 0>> }, ep \in {0, 1, 8} }

\* ---- paddings larger than the whole buffer (legal up to 255): padding must be skipped as it arrives, never buffered
FamBigPad ==
  { W(ReqItems(1, 1, bp, 3, <<4>>, << pp, 0 >>, ep), << PL[3] >>, 0, "pad", TRUE)
      : bp \in {0, B + 1}, pp \in {B, B + 1, 255}, ep \in {0, 255} }

\* ---- family "inter": one interleaved record at every gap
FamInter ==
  UNION { LET base == ReqItems(1, 0, 0, i, cs, <<1>>, 0) IN
          { W(InsAfter(base, k, Extras[e]), << PL[i] >>, 0, "inter", TRUE) : k \in 0..Len(base), e \in 1..Len(Extras) }
          : i \in {3}, cs \in { <<>>, <<5>>, <<2, 9>> } }

\* ---- family "hostile": bad versions, wrong BeginRequest, aborts, unknown roles, truncation
HostileBases == {
  << IRaw(2, TBegin, Own, 8, 0) >>,
  << IRaw(1, 200, 0, 0, 0), IRaw(0, 0, 0, 0, 0) >>,
  << IRaw(1, TBegin, Own, 7, 1), IParams(Own, 0, 0) >>,
  << IRaw(1, TBegin, Own, 9, 0) >>,
  << IBegin(0, 1, 0, 0), IParams(0, 0, 0) >>,
  << IBegin(0, 9, 0, 2), IBegin(Own, 700, 1, 0), IBegin(Own, 2, 0, 0), IParams(Own, 0, 0) >>,
  << IBegin(Own, 1, 1, 0), IParams(Own, 4, 0), IAbort(Own, 2, 1), IBegin(Own, 3, 0, 0), IParams(Own, 0, 0) >>,
  << IBegin(Own, 1, 1, 0), IParams(Own, 4, 4), IRaw(3, TParams, Own, 0, 0) >>,
  << IBegin(Own, 1, 1, 0), IGetValues(0, << GvKnown1 >>, 0, 1), IRaw(7, 9, 0, 0, 0) >>,
  << IStream(TStdin, Own, 3, 1), IStream(TData, Own, 0, 0), IAbort(Own, 0, 0), IBegin(Own, 1, 0, 0), IParams(Own, 0, 0) >>,
  << IGetValues(0, << GvKnown1, GvUnk >>, 3, 5), IGetValues(0, << GvKnown4 >>, 0, 0), IBegin(Own, 1, 0, 0), IParams(Own, 0, 0) >>,
  << IBegin(Own, 1, 1, 0), IParams(Own, 4, 0), IParams(Own, 0, 0), IStream(TStdin, Own, 5, 0), IBegin(Other, 1, 0, 0) >>,
  << IGetValues(0, << GvKnown1 >>, 8, 0), IGetValues(0, << GvKnown4 >>, 0, 0), IBegin(Own, 1, 0, 0), IParams(Own, 0, 0) >>
}
FamHostile ==
  { W(b, << PL[1], PL[5] >>, 0, "hostile", FALSE) : b \in HostileBases }
FamTrunc ==
  UNION { LET items == ReqItems(1, 1, 1, 3, <<5>>, <<2>>, 1)
              full == MkWire(items, << PL[3] >>, 0).len
          IN { W(items, << PL[3] >>, c, "trunc", TRUE) : c \in 1..full } : x \in {1} }

\* ---- family "bound": pairs at and beyond the documented bound for this B (C06)
BigPair(nv, e) == << PSpec(e, nv - 2, e, 2, K1) >>
FamBound ==
  UNION { UNION { LET pl == << PSpec(1, 1, 1, 0, K2) >> \o BigPair(nv, e)
                      P == 3 + 2 * e + nv
                  IN { W(<< IBegin(Own, 1, 0, 0) >> \o ParamsItems(Own, P, cs, <<0>>, 1) \o << IParams(Own, 0, 0) >>,
                         << pl >>, 0, "bound", nv <= B - 13)
                       : cs \in { <<>>, <<1>>, <<3>>, <<4>>, <<3 + e>>, <<3 + 2 * e>>, <<3 + 2 * e + 1>>, <<P - 1>>, <<2, P - 2>> } }
                  : nv \in (B - 14)..(B - 1) } : e \in {1, 4} }

\* a GetValues record whose body is larger than the whole buffer while every pair of it is inside the bound:
\* the bound is per pair, not per record (lib.rs MIN_BUF_SIZE rationale), at every gap of a small request
BigQuery == [i \in 1..(B \div 5 + 2) |-> GvUnk] \o (IF B >= 29 THEN << GvKnown1 >> ELSE <<>>) \o << GvUnk >>
FamBoundGV ==
  UNION { LET base == ReqItems(1, 0, 0, 3, cs, <<1>>, 0) IN
          { W(InsAfter(base, k, IGetValues(0, BigQuery, 0, pad)), << PL[3] >>, 0, "bound", TRUE) : k \in 0..(Len(base) - 1), pad \in {0, 3} }
          : cs \in { <<>>, <<5>> } }

WireSet ==
  (IF "cuts" \in Menu THEN FamCuts2 ELSE {}) \cup (IF "pad" \in Menu THEN FamPad \cup FamBigPad ELSE {})
  \cup (IF "inter" \in Menu THEN FamInter ELSE {}) \cup (IF "hostile" \in Menu THEN FamHostile ELSE {})
  \cup (IF "trunc" \in Menu THEN FamTrunc ELSE {}) \cup (IF "bound" \in Menu THEN FamBound \cup FamBoundGV ELSE {})
WSeq == TLCEval(SetToSeq(WireSet))
NW == Len(WSeq)
Wr(i) == WSeq[i].w

\* Canonical chunking used as the yardstick of chunking-invariance: the parser state
\* after the first f bytes fed ONE BYTE AT A TIME into an unbounded buffer (no stuck
\* test), carried as the history variable `canon`; `cstuck` is the first prefix length
\* at which a buffer of B bytes is full while that parser is unfinished (0 = not yet).
\* Both are functions of (wi, fed) only, so they add nothing to the state space.
RECURSIVE Advance(_, _, _, _, _)
Advance(w, c, cs, f, n) ==
  IF n = 0 THEN [c |-> c, cs |-> cs]
  ELSE LET c2 == Drive(w, c, f + 1, <<>>).st
           full == ~Final(c2) /\ (f + 1) - c2.pos >= B
       IN Advance(w, c2, IF full /\ cs = 0 THEN f + 1 ELSE cs, f + 1, n - 1)

\* ------------------------------------------------------------------ behaviour
FeedSizes(free, rem, final) ==
  LET m == Min2(free, rem) IN
  IF final THEN {0, 1, m} \cap 0..m
  ELSE IF Feed = "all" THEN 0..m
  ELSE {0, 1, 2, 3, 7, 8, 9, 15, 16, 17, m} \cap 0..m

Init ==
  /\ wi \in 1..NW
  /\ rp = RPInit /\ fed = 0 /\ lastOut = <<>> /\ out = <<>> /\ hist = <<>> /\ canon = RPInit /\ cstuck = 0
  /\ PrintT(ToJson([t |-> "case", c |-> wi, B |-> B, tag |-> WSeq[wi].tag, wire |-> Wr(wi)]))

Parse(n) ==
  LET r == RP_Parse(Wr(wi), B, rp, fed, n) IN
  /\ rp' = r.st /\ fed' = fed + n /\ lastOut' = r.out /\ out' = out \o r.out
  /\ hist' = Append(hist, n) /\ UNCHANGED wi
  /\ LET a == Advance(Wr(wi), canon, cstuck, fed, n) IN canon' = a.c /\ cstuck' = a.cs

Next == \E n \in FeedSizes(Free(B, rp, fed), Wr(wi).len - fed, Final(rp)) :
          /\ IF n = 0 /\ Len(hist) > 0 THEN hist[Len(hist)] # 0 ELSE TRUE      \* at most one parse(0) in a row
          /\ Parse(n)

Spec == Init /\ [][Next]_vars

\* ------------------------------------------------------------------ what the harness compares
EnvSet(e) == { << k, e[k] >> : k \in DOMAIN e }
Obs == [done |-> Final(rp), conv |-> ConvClass(rp), err |-> rp.err, arg |-> rp.errArg,
        req |-> rp.req, env |-> IF rp.mode = "Done" THEN EnvSet(rp.env) ELSE {}, sess |-> rp.sess,
        left |-> IF rp.mode = "Done" THEN << rp.pos, fed >> ELSE << 0, 0 >>,
        out |-> lastOut, room |-> Free(B, rp, fed) > 0]
Micro == [free |-> Free(B, rp, fed), pos |-> rp.pos, mode |-> rp.mode, nvbuf |-> rp.nvbuf]
Emit == PrintT(ToJson([t |-> "edge", c |-> wi, h |-> hist', obs |-> Obs', micro |-> Micro']))

\* ------------------------------------------------------------------ invariants
Geometry == rp.pos <= fed /\ fed - rp.pos <= B /\ fed <= Wr(wi).len /\ rp.nvbuf >= 0 /\ rp.payRem >= 0 /\ rp.padRem >= 0

\* C06: an unfinished parser always offers input space
NeverFullUnlessStuck == ~Final(rp) => fed - rp.pos < B

\* C01/C03: the state is a function of the prefix fed, not of the chunking
PrefixDetermined ==
  IF cstuck = 0 THEN rp = canon
  ELSE fed = cstuck /\ rp = FatalSt(canon, "Stuck", 0)

\* C04: exactly the replies the reference prescribes for the prefix, in order
RepliesExact == out = RefRepliesUpTo(RefReq(Wr(wi)), fed)

\* C01/C05: outcome, request, environment and leftover equal the reference
OutcomeExact ==
  LET ref == RefReq(Wr(wi))
      res == RefResAt(Wr(wi), ref, fed)
  IN IF rp.err = "Stuck" THEN cstuck # 0 /\ fed = cstuck
     ELSE /\ (rp.mode = "Done") <=> (res = "request")
          /\ (rp.mode = "Fatal") <=> (res = "fatal")
          /\ rp.mode = "Done" =>
               /\ rp.req = ref.req /\ rp.sess = ref.sess
               /\ rp.env = RefEnv(Wr(wi).pairs[ref.sess], ref.slen)
               /\ rp.pos = ref.at
          /\ rp.mode = "Fatal" => rp.err = ref.err /\ rp.errArg = ref.errArg

\* C06: the documented bound suffices
BoundSuffices == WSeq[wi].bounded => cstuck = 0 /\ rp.err # "Stuck"

\* C03: a fatal error is sticky and silent
StickyFatal == [][rp.mode = "Fatal" => rp' = rp /\ lastOut' = <<>>]_vars
DoneSticky == [][rp.mode = "Done" => rp' = rp /\ lastOut' = <<>>]_vars
=============================================================================
