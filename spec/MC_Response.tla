----------------------------- MODULE MC_Response -----------------------------
(* Cases for Response.tla.  The reason phrase of each status code is an input: the file IOEnv.REASONS
   (written by the harness from the http crate's table, "Custom" where there is no canonical phrase)
   lists [code, reason bytes] for 100..999. *)
EXTENDS Response, TLC, Json, IOUtils
Reasons == ndJsonDeserialize(IOEnv.REASONS)
ReasonOf(code) == Reasons[code - 99].reason
CONSTANT Full
VARIABLE c
\* (empty, plain, two bytes, opaque bytes, control bytes other than a newline in the middle: HTAB, NUL / ESC / DEL)
Val == { <<>>, << 97 >>, << 97, 98 >>, << 45, 32, 255 >>, << 97, 9, 98 >>, << 0, 27, 127, 99 >> }
HeaderLists == { <<>> } \cup { << << n, v >> >> : n \in Val, v \in Val } \cup { << << n, v >>, << v, n >> >> : n \in {<<>>, << 97 >>}, v \in Val }
Codes == IF Full THEN 100..999 ELSE {100, 199, 200, 299, 404, 418, 451, 599, 600, 999}
Init ==
  \/ \E code \in Codes : \E hs \in (IF Full THEN { <<>>, << << << 97 >>, << 98 >> >> >> } ELSE HeaderLists) :
       LET bytes == Headers(code, ReasonOf(code), hs) IN
       \E cap \in (IF Full THEN {0, Len(bytes) - 1, Len(bytes)} ELSE 0..(Len(bytes) + 1)) :
         c = [t |-> "hdr", code |-> code, rlen |-> Len(ReasonOf(code)), hs |-> hs, cap |-> cap, bytes |-> bytes, w |-> WriteInto(cap, bytes)]
  \/ \E loc \in { <<>>, << 47 >>, << 47, 97, 63, 98 >>, << 104, 116, 116, 112, 58, 47, 47, 120 >> } :
       LET bytes == Redirect(loc) IN
       \E cap \in 0..(Len(bytes) + 1) : c = [t |-> "redir", loc |-> loc, cap |-> cap, bytes |-> bytes, w |-> WriteInto(cap, bytes)]
Next == UNCHANGED c
Spec == Init /\ [][Next]_c
Laws ==
  /\ c.w.ok <=> Len(c.bytes) <= c.cap
  /\ c.w.ok => c.w.n = Len(c.bytes)
  /\ c.bytes[Len(c.bytes)] = 10 /\ c.bytes[Len(c.bytes) - 1] = 10
  /\ c.t = "hdr" => Len(c.bytes) = 8 + 3 + 1 + c.rlen + 2 + (IF c.hs = <<>> THEN 0 ELSE Len(HeaderLines(c.hs)))
Emit == PrintT(ToJson(c))
=============================================================================
