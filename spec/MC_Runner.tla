------------------------------ MODULE MC_Runner ------------------------------
EXTENDS Runner, Json
Spec == RInit /\ PrintT(ToJson([t |-> "case", c |-> MaxConns, nf |-> NF])) /\ [][RNext]_rvars
View == <<count, q, fst, wp>>
Obs == [count |-> count, live |-> LiveTokens, wp |-> wp, fst |-> fst]
Emit == PrintT(ToJson([t |-> "edge", c |-> MaxConns, h |-> rhist', obs |-> Obs']))
=============================================================================
