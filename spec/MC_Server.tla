------------------------------ MODULE MC_Server ------------------------------
EXTENDS Server, Json
Spec == SInit /\ PrintT(ToJson([t |-> "case", c |-> MaxConns, nf |-> NF])) /\ [][SNext]_allvars
View == <<count, q, fst, wp, alive, sfut, sreg, swake, stopped>>
Obs == [live |-> LiveTokens, fst |-> fst, stopped |-> stopped, sfut |-> sfut, swake |-> swake, sreg |-> sreg, alive |-> alive]
Emit == PrintT(ToJson([t |-> "edge", c |-> MaxConns, h |-> shist', obs |-> Obs']))
=============================================================================
