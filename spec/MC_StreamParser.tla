--------------------------- MODULE MC_StreamParser ---------------------------
(***************************************************************************)
(* Exhaustive model of the stream parser under every caller schedule of    *)
(*   parse(n, dest) / consume_stream / compress / consume_output /         *)
(*   set_stream                                                            *)
(* that respects the documented preconditions, on a menu of abstract wires *)
(* (a two-record preamble followed by stream / management / foreign        *)
(* records).  Invariants state C02 C18 and the stream halves of C03 C04;   *)
(* every explored transition is printed once and replayed on the code.     *)
(***************************************************************************)
EXTENDS StreamParser, Json, SequencesExt, FiniteSetsExt

CONSTANTS B, Menu, Feed, Dests, ND, Ops
\* Ops: which caller actions besides parse are enabled, a subset of {"cs", "c", "co", "ss"}
\* ND: decimal digits of the connection limit (length of GetValuesResult values)

VARIABLES wi, cw, sp, last, hist, delivered, epochRi, appended, reported, errSeen, nop
\* last      : result of the last call (hidden)   hist: the calls so far (hidden)
\* delivered : merged intervals handed to the caller for the active stream since it became active
\* epochRi   : record index at which the active stream became active
\* appended  : all replies ever put into the output buffer;  reported: sum of Status.output
\* errSeen   : the error a parse call has returned, if any (errors must repeat on every later call)
\* cw        : the case record WSeq[wi] carried in the state (TLC re-evaluates the menu constant at every reference)
vars == <<wi, cw, sp, last, hist, delivered, epochRi, appended, reported, errSeen, nop>>
\* nop: the last call left the parser state unchanged (a rejected or repeated set_stream, a parse(0) with nothing to do).
\* Without it in the VIEW such a state coincides with its predecessor, TLC never continues from it, and no emitted
\* history would contain "no-op call, then more calls" - exactly where a call that should change nothing but does shows.
View == <<wi, sp, delivered, epochRi, nop>>

Own == 1
Other == 2

\* ------------------------------------------------------------------ wires
Pre(role, flags) == << IBegin(Own, role, flags, 0), IParams(Own, 0, 0) >>
PreLen == 24

Sym == [
  S3 |-> IStream(TStdin, Own, 3, 1),  S1 |-> IStream(TStdin, Own, 1, 0),  S0 |-> IStream(TStdin, Own, 0, 0),
  D2 |-> IStream(TData, Own, 2, 0),   D0 |-> IStream(TData, Own, 0, 7),
  GV |-> IGetValues(0, << [size |-> 16, var |-> 1] >>, 0, 0),
  GX |-> IGetValues(0, << [size |-> 4, var |-> 0], [size |-> 17, var |-> 4] >>, 1, 1),
  U0 |-> IRaw(1, 201, 0, 0, 0),                                   \* unknown type, empty body (menu replies3)
  GH |-> IGetValues(0, << [size |-> 4, var |-> 0] >>, 8, 0),      \* 8 trailing bytes that read like a record header
  UK |-> IRaw(1, 200, 5, 1, 0),       PS |-> IParams(Own, 2, 0),
  FB |-> IBegin(Other, 1, 0, 0),      OB |-> IBegin(Own, 1, 1, 0),
  FS |-> IStream(TStdin, Other, 2, 0), AO |-> IAbort(Other, 0, 0), AB |-> IAbort(Own, 0, 1),
  BV |-> IRaw(9, TStdin, Own, 0, 0),  SP |-> IStream(TStdin, Own, 2, 9) ]
Names == DOMAIN Sym

OrderNames == {"S3", "S0", "D2", "D0", "FS", "AB", "GV"}
Seqs1 == { << a >> : a \in OrderNames }
Seqs2 == { << a, b >> : a \in OrderNames, b \in OrderNames }
Seqs3 == { << a, b, c >> : a \in {"S3", "D2", "S0"}, b \in {"S3", "S0", "D2", "D0"}, c \in {"S0", "D2", "D0", "S3"} }
Typical == {
  << "S3", "GV", "S1", "S0" >>, << "S3", "S0", "D2", "D0" >>, << "D2", "S3", "S0", "D0" >>, << "S1", "D2", "S0", "D0" >>,
  << "S3", "UK", "S1", "S0", "FB" >>, << "S1", "AB", "S1", "S0" >>, << "S3", "FS", "SP", "S0" >>, << "S0", "S1", "D2", "D0" >>,
  << "GX", "S3", "S0" >>, << "S3", "GX", "S0" >>, << "S1", "S0", "GV" >>, << "S1", "S0", "AB" >>, << "SP", "BV", "S0" >>,
  << "S1", "S1", "S1", "S0" >>, << "D2", "D0", "S1", "S0" >>, << "PS", "OB", "S3", "S0" >> }

Mini == { << "S3", "GV", "S1", "S0" >>, << "S3", "S0", "D2", "D0" >>, << "D2", "S3", "S0", "D0" >>, << "S1", "AB", "S1", "S0" >>,
          << "S3", "UK", "S1", "S0", "FB" >>, << "SP", "BV", "S0" >> }

W(role, syms, la, cut, tag) ==
  [w |-> MkWire(Pre(role, 1) \o [i \in 1..Len(syms) |-> Sym[syms[i]]], << <<>> >>, cut),
   role |-> role, la |-> la, tag |-> tag, syms |-> syms]

WireSet ==
  (IF "pairs" \in Menu THEN { W(role, s, 0, 0, "pairs") : role \in {1, 2, 3}, s \in Seqs1 \cup Seqs2 \cup Seqs3 } ELSE {})
  \cup (IF "typical" \in Menu THEN { W(role, s, la, 0, "typical") : role \in {1, 3}, s \in Typical, la \in {0, 5} } ELSE {})
  \cup (IF "mini" \in Menu THEN { W(role, s, la, 0, "mini") : role \in {1, 3}, s \in Mini, la \in {0, 3} } ELSE {})
  \cup (IF "mini3" \in Menu THEN { W(3, s, 0, 0, "mini3") : s \in Mini } \cup { W(1, s, 0, 0, "mini3") : s \in { << "S3", "GV", "S1", "S0" >>, << "S1", "AB", "S1", "S0" >> } } ELSE {})
  \cup (IF "replies" \in Menu THEN { W(role, s, 0, 0, "replies") : role \in {1, 2}, s \in { << "GV" >>, << "GX" >>, << "GH", "GV" >>, << "UK", "FB" >>, << "GX", "GV" >>,
                                          << "S3", "GX", "S0" >>, << "FB", "UK", "GV" >>, << "OB", "GV", "AO" >>, << "UK", "S1", "GV", "S0" >> }
                                        \* (below) every ordered pair of adjacent reply-producing records (state left behind by one must not leak into the next)
                                       } ELSE {})
  \cup (IF "replies2" \in Menu THEN ({ W(1, << a, b >>, 0, 0, "replies2") : a \in {"GV", "GX"}, b \in {"GV", "GX", "UK", "FB", "OB"} }
                                         \cup { W(1, << a, "GV" >>, 0, 0, "replies2") : a \in {"UK", "FB", "OB"} }) ELSE {})
  \* many replies pending at once (more than one GetValuesResult's worth of bytes), drained by partial consume_output calls
  \cup (IF "replies3" \in Menu THEN { W(1, [i \in 1..n |-> "U0"], 0, 0, "replies3") : n \in {7, 9} } ELSE {})
  \cup (IF "auth" \in Menu THEN { W(2, s, 0, 0, "auth") : s \in Typical } ELSE {})
  \cup (IF "trunc" \in Menu THEN { W(3, << "S3", "GV", "S0", "D2", "D0" >>, 0, c, "trunc") : c \in 0..40 } ELSE {})
WSeq == TLCEval(SetToSeq(WireSet))
NW == Len(WSeq)
Wr(i) == cw.w

\* ------------------------------------------------------------------ behaviour
ReqOf(c) == [id |-> Own, role |-> c.role, flags |-> 1]
Ri0 == 3

Init ==
  /\ wi \in 1..NW
  /\ cw = WSeq[wi]
  /\ sp = SPInit(ReqOf(cw), PreLen, Min2(cw.la, cw.w.len - PreLen), Ri0, 1)
  /\ last = [k |-> "init"] /\ hist = <<>> /\ delivered = <<>> /\ epochRi = Ri0 /\ appended = <<>> /\ reported = 0 /\ errSeen = "" /\ nop = FALSE
  /\ PrintT(ToJson([t |-> "case", c |-> wi, B |-> B, tag |-> cw.tag, la |-> sp.fs, wire |-> cw.w]))

FeedSizes(free, rem) ==
  LET m == Min2(free, rem) IN
  IF Feed = "all" THEN 0..m
  ELSE IF Feed = "tiny" THEN {0, 1, 8, m} \cap 0..m
  ELSE IF Feed = "max" THEN {m}
  ELSE {0, 1, 2, 7, 8, 9, 15, 16, m} \cap 0..m

NewReplies(st2) == SubSeq(st2.outq, Len(sp.outq) + 1, Len(st2.outq))

DoParse(n, dest) ==
  LET r == SP_Parse(Wr(wi), ND, sp, n, dest) IN
  /\ sp' = r.st
  /\ last' = [k |-> "parse", stream |-> r.res.stream, end |-> r.res.end, output |-> r.res.output, err |-> r.err, arg |-> r.arg,
              got |-> IF r.err = "" THEN r.got ELSE <<>>]
  /\ delivered' = IF r.err = "" THEN IvConcat(delivered, r.got) ELSE delivered
  /\ appended' = appended \o NewReplies(r.st)
  /\ reported' = reported + r.res.output      \* a failing call drops its Status; the model still counts
  /\ errSeen' = IF r.err # "" THEN r.err ELSE errSeen
  /\ hist' = Append(hist, << "P", n, dest >>)
  /\ nop' = (sp' = sp)
  /\ UNCHANGED <<wi, cw, epochRi>>

ConsumeStream(k) ==
  /\ ParsedLen(sp) > 0
  /\ LET m == Min2(k, ParsedLen(sp)) IN
     /\ sp' = SP_ConsumeStream(sp, k)
     /\ delivered' = IvConcat(delivered, IvTake(sp.piv, m))
     /\ last' = [k |-> "consume", got |-> IvTake(sp.piv, m)]
  /\ hist' = Append(hist, << "CS", k >>)
  /\ nop' = (sp' = sp)
  /\ UNCHANGED <<wi, cw, epochRi, appended, reported, errSeen>>

Compress ==
  /\ sp.rs > sp.gs - sp.ps \/ sp.ps > 0          \* something to reclaim (otherwise a no-op)
  /\ sp' = SP_Compress(sp)
  /\ last' = [k |-> "compress"]
  /\ hist' = Append(hist, << "C" >>)
  /\ nop' = (sp' = sp)
  /\ UNCHANGED <<wi, cw, delivered, epochRi, appended, reported, errSeen>>

ConsumeOutput(k) ==
  /\ OutLen(sp, ND) > 0
  /\ sp' = SP_ConsumeOutput(sp, ND, k)
  /\ last' = [k |-> "consumeout"]
  /\ hist' = Append(hist, << "CO", k >>)
  /\ nop' = (sp' = sp)
  /\ UNCHANGED <<wi, cw, delivered, epochRi, appended, reported, errSeen>>

SetStream(s) ==
  LET r == SP_SetStream(sp, s) IN
  /\ sp' = r.st
  /\ last' = [k |-> "setstream", ok |-> r.ok]
  /\ delivered' = IF r.ok /\ s # sp.stream THEN <<>> ELSE delivered
  /\ epochRi' = IF r.ok /\ s # sp.stream THEN sp.ri ELSE epochRi
  /\ hist' = Append(hist, << "SS", s >>)
  /\ nop' = (sp' = sp)
  /\ UNCHANGED <<wi, cw, appended, reported, errSeen>>

LastIs(k) == Len(hist) > 0 /\ hist[Len(hist)][1] = k

Next ==
  \/ \E n \in FeedSizes(SFree(B, sp), Wr(wi).len - SFed(sp)) :
       \E d \in {-1} \cup (IF ParsedLen(sp) = 0 THEN Dests ELSE {}) :
          /\ ~(n = 0 /\ LastIs("P") /\ hist[Len(hist)][2] = 0 /\ hist[Len(hist)][3] = d)   \* no identical parse(0) twice in a row
          /\ DoParse(n, d)
  \/ "cs" \in Ops /\ \E k \in {1, 64} : ConsumeStream(k)
  \/ "c" \in Ops /\ Compress
  \/ "co" \in Ops /\ \E k \in (IF "replies3" \in Menu THEN {50, 60, 200} ELSE {1, 200}) : ConsumeOutput(k)
  \/ "ss" \in Ops /\ \E s \in {TStdin, TData, NoStream} : ~LastIs("SS") /\ SetStream(s)

Spec == Init /\ [][Next]_vars

\* ------------------------------------------------------------------ what the harness compares
Obs == [last |-> last, stream |-> sp.stream, sbuf |-> sp.piv, olen |-> OutLen(sp, ND), oq |-> sp.outq, ostart |-> sp.outStart,
        boundary |-> AtBoundary(sp), conv |-> SP_ConvClass(sp), left |-> << sp.rawLo, SFed(sp) >>]
Micro == [free |-> SFree(B, sp), ps |-> sp.ps, gs |-> sp.gs, rs |-> sp.rs, fs |-> sp.fs, mode |-> sp.mode]
Emit == PrintT(ToJson([t |-> "edge", c |-> wi, h |-> hist', obs |-> Obs', micro |-> Micro']))

\* ------------------------------------------------------------------ invariants
Geometry ==
  /\ 0 <= sp.ps /\ sp.ps <= sp.gs /\ sp.gs <= sp.rs /\ sp.rs <= sp.fs /\ sp.fs <= B
  /\ sp.outStart >= 0 /\ sp.outStart <= OutBytes(sp.outq, ND) /\ (sp.outq = <<>> => sp.outStart = 0)
  /\ SFed(sp) <= Wr(wi).len

ContentMatchesGeometry == IvsLen(sp.piv) = ParsedLen(sp)

Ref == RefStream(Wr(wi), epochRi, sp.req, sp.stream)

\* C02 / C18: what the caller has received plus what waits in the stream buffer is a prefix of
\* the active stream's true content, and nothing is ever delivered when no stream is active
DeliveredIsPrefix ==
  IF sp.stream = NoStream THEN delivered = <<>> /\ sp.piv = <<>>
  ELSE IvIsPrefix(IvConcat(delivered, sp.piv), Ref.ivs)

\* C02: end-of-stream is reported exactly at the terminator / first record of a later stream
EosExact ==
  (last.k = "parse" /\ last.err = "") =>
    LET heldAtStop == AtBoundary(sp) /\ RawLen(sp) >= 8 /\ sp.ri = Ref.at /\ Ref.stop = "eos" IN
    IF sp.stream = NoStream THEN last.end
    ELSE /\ last.end => heldAtStop /\ IvConcat(delivered, sp.piv) = Ref.ivs
         /\ heldAtStop => last.end

\* C03: a failing call names the record the reference stops at
ErrExact ==
  (last.k = "parse" /\ last.err # "") =>
    /\ AtBoundary(sp) /\ RawLen(sp) >= 8
    /\ LET r == Wr(wi).recs[sp.ri] IN
       IF last.err = "Version" THEN r.ver # 1 /\ last.arg = r.ver
       ELSE r.ver = 1 /\ r.ty = TAbort /\ r.id = sp.req.id

\* C04: replies = the reference list for the records consumed so far; reported = appended
Owed ==
  LET all == RefStreamReplies(Wr(wi), Ri0, sp.req, <<>>)
      S == SelectSeq(all, LAMBDA x : x.rec < sp.ri /\ ~(x.r.k = "gvr" /\ x.rec = sp.ri - 1 /\ sp.payRem > 0))
  IN [i \in 1..Len(S) |-> S[i].r]
RepliesExact == appended = Owed
OutputAccounting ==
  /\ IsSuffix(sp.outq, appended)
  /\ reported = OutBytes(appended, ND)

\* C18: the active stream only moves forward along the role's order, or to none, permanently
StreamMonotone ==
  [][sp'.stream # sp.stream =>
        \/ sp'.stream = NoStream
        \/ /\ sp.stream # NoStream
           /\ Pos(InputStreams(sp.req.role), sp.stream) < Pos(InputStreams(sp.req.role), sp'.stream)]_vars
RejectChangesNothing == [][(last'.k = "setstream" /\ ~last'.ok) => sp' = sp]_vars
ReselectKeepsBuffer == [][(last'.k = "setstream" /\ last'.ok /\ sp'.stream = sp.stream) => sp' = sp]_vars
\* C03: an error repeats on every later parse call
ErrorSticky == (last.k = "parse" /\ errSeen # "") => last.err = errSeen
=============================================================================
