------------------------------ MODULE MC_VarName ------------------------------
(***************************************************************************)
(* Mode "laws": all byte strings of length <= 3 over {a, A, b, _, -, and   *)
(* the two bytes of e-acute / E-acute} with LANES = 2: the laws of C19 on  *)
(* the specification's operators, decided exhaustively.                    *)
(* Mode "vectors": the names listed in the file IOEnv.NAMES (every         *)
(* interned name and boundary-length names, written by /verif/check) in    *)
(* upper / lower / mixed case, with a dropped last byte and with one       *)
(* non-ASCII substitution, all pairs per name, LANES = 16: expected        *)
(* equality, order, hash writes and header mapping for the harness.        *)
(***************************************************************************)
EXTENDS VarName, TLC, Json, IOUtils

CONSTANTS Mode, Depth
VARIABLE c

\* letters in both cases, '_' and '-', the two bytes of e-acute / E-acute, and the bytes right next to the letter ranges
\* ('@' '[' '`' '{'): an off-by-one in a hand-written case fold shows only there
\* (depth 3 keeps to the first eight: the laws are quadratic in the number of strings and cubic with the transitivity clauses)
Alpha == IF Depth >= 3 THEN {97, 65, 98, 95, 45, 195, 169, 137} ELSE {97, 65, 98, 95, 45, 195, 169, 137, 64, 91, 96, 123, 122, 90}
RECURSIVE Strs(_)
Strs(n) == IF n = 0 THEN { <<>> } ELSE LET s == Strs(n - 1) IN s \cup { Append(x, a) : x \in { y \in s : Len(y) = n - 1 }, a \in Alpha }
Small == Strs(Depth)

Names == IF Mode = "vectors" THEN ndJsonDeserialize(IOEnv.NAMES) ELSE << >>
\* Across(n): the bytes next to the letter ranges exchanged with the byte 32 further on ('@' <-> '`', '[' <-> '{'),
\* which a correct ASCII case fold keeps apart
Across(n) == [i \in DOMAIN n |-> CASE n[i] = 64 -> 96 [] n[i] = 96 -> 64 [] n[i] = 91 -> 123 [] n[i] = 123 -> 91 [] OTHER -> n[i]]
Variants(n) == << Upper(n), Lower(n), Mixed(n), SubSeq(n, 1, Len(n) - 1), [n EXCEPT ![1] = 195] \o << 169 >>, n \o << 95 >>, Across(n) >>

Case(a, b) == [t |-> "vn", a |-> a, b |-> b, eq |-> FoldEq(a, b), cmp |-> FoldCmp(a, b), ha |-> HashWrites(a, 16), hb |-> HashWrites(b, 16),
               ua |-> Upper(a), hv |-> HeaderVar(Lower(a))]

Init ==
  IF Mode = "laws" THEN c \in { [t |-> "law", a |-> a] : a \in Small }
  ELSE \E i \in 1..Len(Names) : \E x \in 1..7 : \E y \in 1..7 :
         c = Case(Variants(Names[i].n)[x], Variants(Names[IF y = 6 /\ i < Len(Names) THEN i + 1 ELSE i].n)[y])
Next == UNCHANGED c
Spec == Init /\ [][Next]_c

Laws ==
  c.t = "law" =>
    LET a == c.a IN
    /\ FoldEq(a, a) /\ FoldCmp(a, a) = "eq"
    /\ \A b \in Small :
         /\ FoldEq(a, b) <=> FoldEq(b, a)
         /\ FoldEq(a, b) <=> (FoldCmp(a, b) = "eq")
         /\ (FoldCmp(a, b) = "lt") <=> (FoldCmp(b, a) = "gt")
         /\ FoldEq(a, b) => HashWrites(a, 2) = HashWrites(b, 2)
         \* prefix-free: the hash stream of one name is a prefix of another's only if they are equal
         /\ IsPrefixOf(HashStream(a, 2), HashStream(b, 2)) => FoldEq(a, b)
         \* equality ignores ASCII case only
         /\ FoldEq(a, b) <=> (Len(a) = Len(b) /\ \A i \in 1..Len(a) : a[i] = b[i] \/ (Up(a[i]) = Up(b[i]) /\ Up(a[i]) \in 65..90))
         \* transitivity of equality and of the order (over the strings of length <= 2 as third element)
         /\ \A d \in Strs(2) : (FoldEq(a, b) /\ FoldEq(b, d)) => FoldEq(a, d)
         /\ \A d \in Strs(2) : (FoldCmp(a, b) = "lt" /\ FoldCmp(b, d) = "lt") => FoldCmp(a, d) = "lt"
Emit == c.t = "vn" => PrintT(ToJson(c))
=============================================================================
