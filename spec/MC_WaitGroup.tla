---------------------------- MODULE MC_WaitGroup ----------------------------
EXTENDS WaitGroup, Json
Spec == WInit /\ [][WNext]_wvars
LiveSpec == Spec /\ Fair
View == <<ntok, runner, fut, pc, reg, wake, polled>>
AtEnd == fut = "done" \/ (ntok = 0 /\ fut = "pending" /\ pc = "idle")
Emit == PrintT(ToJson([t |-> "edge", c |-> NTok, h |-> whist', obs |-> [fut |-> fut', wake |-> wake', ntok |-> ntok']]))
=============================================================================
