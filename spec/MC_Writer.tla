------------------------------ MODULE MC_Writer ------------------------------
(* Task menus for Writer.tla; every poll order, every structural cut, spurious Pending. *)
EXTENDS Writer, Json, SequencesExt

CONSTANT Menu
VARIABLE mi
vars == <<mi, tasks, holder, running, out, used, hist>>

W(n) == [op |-> "write", n |-> n]
F == [op |-> "flush", n |-> 0]
R(n) == [op |-> "reply", n |-> n]

\* task 1 = stdout writer, task 2 = stderr writer, task 3 = a clone of the stdout writer or the request's reply flushing
Menus == <<
  << << W(5), W(0), W(9) >>, << W(8), F >>, << R(32) >> >>,
  << << W(1), F, W(7) >>, << W(16) >>, << W(3), W(2) >> >>,
  << << W(8) >>, << F, W(1) >>, << R(32) >> >>,
  << << W(9), W(9) >>, << W(0), W(7), F >>, << W(1) >> >>,
  << << W(65535) >>, << W(65536) >>, << W(70000), F >> >>,
  \* quick-tier boundary menu: one write just above the largest record, against a small writer
  << << W(65536), W(2) >>, << W(3) >>, << W(0) >> >> >>
Kind3 == << "reply", "clone", "reply", "clone", "clone", "clone" >>

Mk(prog) == [prog |-> prog, ip |-> 1, phase |-> "idle", rem |-> 0, total |-> 0, done |-> 0]

Init ==
  /\ mi \in Menu
  /\ tasks = [t \in 1..NT |-> Mk(Menus[mi][t])]
  /\ holder = 0 /\ running = 0 /\ out = <<>> /\ used = [cuts |-> 0, pends |-> 0, pat |-> {}] /\ hist = <<>>
  /\ PrintT(ToJson([t |-> "case", c |-> mi, progs |-> Menus[mi], kind3 |-> Kind3[mi]]))

Next == WNext /\ UNCHANGED mi
Spec == Init /\ [][Next]_vars

AllDone == running = 0 /\ \A t \in 1..NT : \E i \in 1..Len(hist) : hist[i] = << "done", t >>
Emit == AllDone => PrintT(ToJson([t |-> "beh", c |-> mi, h |-> hist, out |-> out]))
ExactlyOnce ==
  AllDone => \A t \in 1..NT : \A i \in 1..Len(tasks[t].prog) :
    LET op == tasks[t].prog[i]
        recs == { j \in 1..Len(out) : out[j].t = t /\ out[j].rec = i }
    IN IF op.op = "flush" \/ (op.op = "write" /\ op.n = 0) THEN recs = {}
       ELSE Cardinality(recs) = (IF op.op = "reply" THEN 1 ELSE (op.n + MaxRec - 1) \div MaxRec)
=============================================================================
