------------------------------ MODULE ReqParser ------------------------------
(***************************************************************************)
(* The request parser of fastcgi-server (src/parser/request.rs) as a       *)
(* transition system over the abstract wire of Wire.tla.                   *)
(*                                                                         *)
(* The parser state is a record `st`; RP_Parse(w, B, st, fed, n) is one    *)
(* call of Parser::parse(n).  The input buffer is the interval             *)
(* [st.pos, fed) of wire offsets (input_len = fed - st.pos); everything    *)
(* the code decides depends only on the header fields and token structure  *)
(* the wire description carries.  Each clause below names the Rust code it *)
(* transcribes (DESIGN.md appendix A).                                     *)
(***************************************************************************)
EXTENDS Wire, TLC

NoReq == [id |-> 0, role |-> 0, flags |-> 0]

RPInit ==
  [mode |-> "Header", nxt |-> "Header", pos |-> 0, ri |-> 1, payRem |-> 0, padRem |-> 0,
   nvbuf |-> 0, sp |-> 0, pj |-> 1, sess |-> 0, req |-> NoReq, env |-> <<>>, vars |-> {},
   err |-> "", errArg |-> 0]

\* a request parser created from leftover input at absolute offset `pos`
\* (stream::Parser::into_request_parser): sess and ri continue on the wire
RPInitAt(pos, ri, sess) == [RPInit EXCEPT !.pos = pos, !.ri = ri, !.sess = sess]

Final(st) == st.mode \in {"Done", "Fatal"}

\* replies
RUnknown(ty, id) == [k |-> "unk", a |-> ty, b |-> id]
REnd(id, pstat)  == [k |-> "end", a |-> id, b |-> pstat]
RGvr(vars)       == [k |-> "gvr", a |-> (IF 1 \in vars THEN 1 ELSE 0) + (IF 2 \in vars THEN 2 ELSE 0) + (IF 4 \in vars THEN 4 ELSE 0), b |-> 0]

ReplyLen(r, ndigits) ==
  IF r.k = "gvr" THEN GetValuesResultLen({x \in {1, 2, 4} : (r.a \div x) % 2 = 1}, ndigits) ELSE 16

\* result of one step of State::drive's loop
Res(st, out, brk) == [st |-> st, out |-> out, brk |-> brk]

HasRec(w, st) == st.ri <= Len(w.recs)
CurRec(w, st) == w.recs[st.ri]          \* record whose header is next
BodyRec(w, st) == w.recs[st.ri - 1]     \* record whose body is being processed

\* StateBuilder::into_skip: straight to the next state when nothing is to be skipped
IntoSkip(st, nxt, pay, pad) ==
  IF pay = 0 /\ pad = 0
  THEN [st EXCEPT !.mode = nxt, !.payRem = 0, !.padRem = 0]
  ELSE [st EXCEPT !.mode = "Skip", !.nxt = nxt, !.payRem = pay, !.padRem = pad]

\* --------------------------------------------------------------- SkipState::drive
StepSkip(st, fed) ==
  LET avail == fed - st.pos
      total == st.payRem + st.padRem
  IN IF st.payRem > avail
     THEN Res([st EXCEPT !.payRem = st.payRem - avail, !.pos = fed], <<>>, TRUE)
     ELSE IF avail < total
     THEN Res([st EXCEPT !.padRem = st.padRem - (avail - st.payRem), !.payRem = 0, !.pos = fed], <<>>, TRUE)
     ELSE Res([st EXCEPT !.mode = st.nxt, !.payRem = 0, !.padRem = 0, !.pos = st.pos + total], <<>>, FALSE)

\* --------------------------------------------------------------- GetValuesState::drive
\* pairs of the body completed inside the window [a, a + len)
GvIn(r, a, len) == { i \in 1..Len(r.gv) : r.gv[i].e > a /\ r.gv[i].e <= a + len }
GvLastEnd(r, a, len) ==
  LET S == GvIn(r, a, len) IN IF S = {} THEN a ELSE r.gv[CHOOSE i \in S : \A j \in S : j <= i].e

StepValues(w, st, fed) ==
  LET r == BodyRec(w, st)
      avail == fed - st.pos
  IN IF st.payRem > 0
     THEN LET a == r.clen - st.payRem
              len == Min2(avail, st.payRem)
              vars2 == (st.vars \cup { r.gv[i].var : i \in GvIn(r, a, len) }) \ {0}
              consumed == GvLastEnd(r, a, len) - a
          IN IF avail < st.payRem
             THEN \* wait for future payload bytes; the incomplete pair stays in the input buffer
                  Res([st EXCEPT !.vars = vars2, !.payRem = st.payRem - consumed, !.pos = st.pos + consumed], <<>>, TRUE)
             ELSE LET pos2 == st.pos + st.payRem
                      avail2 == fed - pos2
                      out == << RGvr(vars2) >>
                  IN IF avail2 < st.padRem
                     THEN Res([st EXCEPT !.vars = vars2, !.payRem = 0, !.padRem = st.padRem - avail2, !.pos = fed], out, TRUE)
                     ELSE Res([st EXCEPT !.mode = st.nxt, !.vars = {}, !.payRem = 0, !.padRem = 0, !.pos = pos2 + st.padRem], out, FALSE)
     ELSE IF avail < st.padRem
          THEN Res([st EXCEPT !.padRem = st.padRem - avail, !.pos = fed], <<>>, TRUE)
          ELSE Res([st EXCEPT !.mode = st.nxt, !.vars = {}, !.padRem = 0, !.pos = st.pos + st.padRem], <<>>, FALSE)

\* --------------------------------------------------------------- try_head! (shared)
\* Outcome of looking at the header at st.pos: "short" | "version" | "unknown" | "ok"
HeadKind(w, st, fed) ==
  IF fed - st.pos < 8 \/ ~HasRec(w, st) THEN "short"
  ELSE LET r == CurRec(w, st) IN
       IF r.ver # 1 THEN "version"
       ELSE IF r.ty \notin KnownTypes THEN "unknown"
       ELSE "ok"

FatalSt(st, err, arg) == [st EXCEPT !.mode = "Fatal", !.err = err, !.errArg = arg]

\* --------------------------------------------------------------- HeaderState::drive
StepHeader(w, st, fed) ==
  LET hk == HeadKind(w, st, fed) IN
  IF hk = "short" THEN Res(st, <<>>, TRUE)
  ELSE LET r == CurRec(w, st)
           past == [st EXCEPT !.pos = st.pos + 8, !.ri = st.ri + 1]
       IN
       IF hk = "version" THEN Res(FatalSt(st, "Version", r.ver), <<>>, TRUE)
       ELSE IF hk = "unknown"
       THEN Res(IntoSkip(past, "Header", r.clen, r.plen), << RUnknown(r.ty, r.id) >>, FALSE)
       ELSE IF r.ty = TGetValues /\ r.id = 0
       THEN Res([past EXCEPT !.mode = "Values", !.nxt = "Header", !.vars = {}, !.payRem = r.clen, !.padRem = r.plen], <<>>, FALSE)
       ELSE IF r.ty # TBegin
       THEN Res(IntoSkip(past, "Header", r.clen, r.plen), <<>>, FALSE)
       ELSE IF r.clen # 8 THEN Res(FatalSt(st, "ReqLen", r.clen), <<>>, TRUE)
       ELSE IF fed - st.pos < 16 THEN Res(st, <<>>, TRUE)
       ELSE LET past16 == [st EXCEPT !.pos = st.pos + 16, !.ri = st.ri + 1] IN
            IF r.role \notin KnownRoles
            THEN Res(IntoSkip(past16, "Header", 0, r.plen), << REnd(r.id, 3) >>, FALSE)
            ELSE IF r.id = 0 THEN Res(FatalSt(past16, "Null", 0), <<>>, TRUE)
            ELSE Res([past16 EXCEPT !.mode = "Params", !.payRem = 0, !.padRem = r.plen,
                                    !.req = [id |-> r.id, role |-> r.role, flags |-> r.flags],
                                    !.env = <<>>, !.nvbuf = 0, !.sp = 0, !.pj = 1, !.sess = st.sess + 1],
                     <<>>, FALSE)

\* --------------------------------------------------------------- ParamsStateInner
SessPairs(w, st) == IF st.sess <= Len(w.pairs) THEN w.pairs[st.sess] ELSE <<>>

ApplyPair(st, p) == [st EXCEPT !.env = (p.key :> st.pj) @@ st.env, !.pj = st.pj + 1]

\* parse_buffered: q = st.nvbuf > 0 bytes of pair pj are in the pair buffer, m bytes of
\* the record body are available.  Returns [st, m] (m = bytes of data left).
ParseBuffered(w, st, m0, recEnd) ==
  LET p  == SessPairs(w, st)[st.pj]
      \* try_fill!(buffer, data, target, rec_end): [q, m, ret]
      Fill(q, m, target) ==
        LET need == target - q IN
        IF need <= 0 THEN [q |-> q, m |-> m, ret |-> FALSE]
        ELSE IF m >= need THEN [q |-> q + need, m |-> m - need, ret |-> FALSE]
        ELSE IF recEnd THEN [q |-> q + m, m |-> 0, ret |-> TRUE]
        ELSE [q |-> q, m |-> m, ret |-> TRUE]
      f1 == Fill(st.nvbuf, m0, H1(p))
      f2 == IF f1.ret THEN f1 ELSE Fill(f1.q, f1.m, H2(p))
      Moved(f) == [st EXCEPT !.nvbuf = f.q, !.sp = st.sp + (m0 - f.m)]
  IN IF f2.ret THEN [st |-> Moved(f2), m |-> f2.m]
     ELSE LET bodyBuf == f2.q - H2(p)
              body == p.n + p.v
          IN IF bodyBuf + f2.m < body
             THEN IF recEnd
                  THEN [st |-> [st EXCEPT !.nvbuf = f2.q + f2.m, !.sp = st.sp + m0], m |-> 0]
                  ELSE [st |-> Moved(f2), m |-> f2.m]
             ELSE LET rest == body - bodyBuf       \* remaining bytes of the pair, taken from data
                      m2 == f2.m - rest
                  IN [st |-> ApplyPair([st EXCEPT !.nvbuf = 0, !.sp = st.sp + (m0 - m2)], p), m |-> m2]

\* in-place NVIter loop: apply every pair that ends within [sp, lim)
RECURSIVE InPlace(_, _, _)
InPlace(w, st, lim) ==
  LET ps == SessPairs(w, st) IN
  IF st.pj <= Len(ps) /\ PairEnd(ps[st.pj]) <= lim
  THEN InPlace(w, ApplyPair([st EXCEPT !.sp = PairEnd(ps[st.pj])], ps[st.pj]), lim)
  ELSE st

\* parse_stream(data of m bytes, rec_end): returns [st, consumed]
ParseStream(w, st, m, recEnd) ==
  LET b == IF st.nvbuf > 0 THEN ParseBuffered(w, st, m, recEnd) ELSE [st |-> st, m |-> m] IN
  IF b.st.nvbuf > 0 THEN [st |-> b.st, consumed |-> m - b.m]
  ELSE LET lim == b.st.sp + b.m
           s2 == InPlace(w, b.st, lim)
           rem == lim - s2.sp
       IN IF recEnd /\ rem > 0
          THEN [st |-> [s2 EXCEPT !.nvbuf = rem, !.sp = lim], consumed |-> m]
          ELSE [st |-> s2, consumed |-> m - rem]

\* --------------------------------------------------------------- ParamsState::drive
StepParams(w, st, fed) ==
  LET avail == fed - st.pos IN
  IF st.payRem > 0 /\ avail < st.payRem
  THEN LET r == ParseStream(w, st, avail, FALSE)
       IN Res([r.st EXCEPT !.payRem = st.payRem - r.consumed, !.pos = st.pos + r.consumed], <<>>, TRUE)
  ELSE
  LET s1 == IF st.payRem > 0
            THEN [ParseStream(w, st, st.payRem, TRUE).st EXCEPT !.payRem = 0, !.pos = st.pos + st.payRem]
            ELSE st
      avail1 == fed - s1.pos
  IN IF s1.padRem > 0 /\ avail1 <= s1.padRem
     THEN Res([s1 EXCEPT !.padRem = s1.padRem - avail1, !.pos = fed], <<>>, TRUE)
     ELSE
     LET s2 == [s1 EXCEPT !.pos = s1.pos + s1.padRem, !.padRem = 0]
         hk == HeadKind(w, s2, fed)
     IN IF hk = "short" THEN Res(s2, <<>>, TRUE)
        ELSE
        LET r == CurRec(w, s2)
            past == [s2 EXCEPT !.pos = s2.pos + 8, !.ri = s2.ri + 1]
        IN IF hk = "version" THEN Res(FatalSt(s2, "Version", r.ver), <<>>, TRUE)
           ELSE IF hk = "unknown"
           THEN Res(IntoSkip(past, "Params", r.clen, r.plen), << RUnknown(r.ty, r.id) >>, FALSE)
           ELSE IF r.ty = TParams /\ r.id = s2.req.id
           THEN IF r.clen = 0
                THEN \* Params stream finished; an incomplete pair in the pair buffer is dropped
                     Res(IntoSkip([past EXCEPT !.nvbuf = 0], "Done", 0, r.plen), <<>>, FALSE)
                ELSE Res([past EXCEPT !.payRem = r.clen, !.padRem = r.plen], <<>>, FALSE)
           ELSE IF r.ty = TAbort /\ r.id = s2.req.id
           THEN Res(IntoSkip([past EXCEPT !.req = NoReq, !.env = <<>>, !.nvbuf = 0], "Header", r.clen, r.plen),
                    << REnd(s2.req.id, 0) >>, FALSE)
           ELSE IF r.ty = TBegin /\ r.id # s2.req.id
           THEN Res(IntoSkip(past, "Params", r.clen, r.plen), << REnd(r.id, 1) >>, FALSE)
           ELSE IF r.ty = TGetValues /\ r.id = 0
           THEN Res([past EXCEPT !.mode = "Values", !.nxt = "Params", !.vars = {}, !.payRem = r.clen, !.padRem = r.plen], <<>>, FALSE)
           ELSE Res(IntoSkip(past, "Params", r.clen, r.plen), <<>>, FALSE)

\* --------------------------------------------------------------- State::drive
Step(w, st, fed) ==
  CASE st.mode = "Header" -> StepHeader(w, st, fed)
    [] st.mode = "Skip"   -> StepSkip(st, fed)
    [] st.mode = "Values" -> StepValues(w, st, fed)
    [] st.mode = "Params" -> StepParams(w, st, fed)

RECURSIVE Drive(_, _, _, _)
Drive(w, st, fed, out) ==
  IF Final(st) THEN [st |-> st, out |-> out]
  ELSE LET r == Step(w, st, fed) IN
       IF r.brk \/ r.st.pos = fed THEN [st |-> r.st, out |-> out \o r.out]
       ELSE Drive(w, r.st, fed, out \o r.out)

\* --------------------------------------------------------------- Parser::parse
\* precondition (asserted by the code): n <= B - (fed - st.pos)
RP_Parse(w, B, st, fed, n) ==
  LET d == Drive(w, st, fed + n, <<>>)
      stuck == ~Final(d.st) /\ (fed + n) - d.st.pos = B
  IN [st |-> IF stuck THEN FatalSt(d.st, "Stuck", 0) ELSE d.st, out |-> d.out]

Free(B, st, fed) == B - (fed - st.pos)

\* into_request / into_stream_parser: "ok" | "err" | "interrupted"
ConvClass(st) == IF st.mode = "Done" THEN "ok" ELSE IF st.mode = "Fatal" THEN "err" ELSE "interrupted"

\* =========================================================================
\* Reference semantics (no chunks, no buffers): what the FastCGI rules say a
\* request parser must produce for the wire, written as one pass over the
\* record list.  Used by the invariants, never by the actions.
\* =========================================================================

\* last-value-wins environment of a complete pair list restricted to a stream length
RefEnv(pairs, slen) ==
  LET done == { j \in 1..Len(pairs) : PairEnd(pairs[j]) <= slen }
      keys == { pairs[j].key : j \in done }
  IN [k \in keys |-> CHOOSE j \in done : pairs[j].key = k /\ \A i \in done : pairs[i].key = k => i <= j]

\* One pass over the records from index i in reference mode m ("H" | "P"):
\* accumulates replies with the wire offset at which each becomes due, and stops
\* at the first terminal event.  acc: [replies, sess, req, slen, res]
RECURSIVE RefWalk(_, _, _, _)
RefWalk(w, i, m, acc) ==
  IF i > Len(w.recs) THEN [acc EXCEPT !.res = "more", !.at = w.len]
  ELSE
  LET r == w.recs[i]
      due(o) == o
      add(rep, o) == [acc EXCEPT !.replies = Append(acc.replies, [r |-> rep, due |-> o])]
      gvReply == IF r.clen > 0 THEN add(RGvr({ r.gv[j].var : j \in 1..Len(r.gv) } \ {0}), r.off + 8 + r.clen) ELSE acc
  IN
  IF r.ver # 1 THEN [acc EXCEPT !.res = "fatal", !.err = "Version", !.errArg = r.ver, !.at = r.off + 8]
  ELSE IF r.ty \notin KnownTypes THEN RefWalk(w, i + 1, m, add(RUnknown(r.ty, r.id), r.off + 8))
  ELSE IF r.ty = TGetValues /\ r.id = 0 THEN RefWalk(w, i + 1, m, gvReply)
  ELSE IF m = "H"
  THEN IF r.ty # TBegin THEN RefWalk(w, i + 1, m, acc)
       ELSE IF r.clen # 8 THEN [acc EXCEPT !.res = "fatal", !.err = "ReqLen", !.errArg = r.clen, !.at = r.off + 8]
       ELSE IF r.role \notin KnownRoles THEN RefWalk(w, i + 1, m, add(REnd(r.id, 3), r.off + 16))
       ELSE IF r.id = 0 THEN [acc EXCEPT !.res = "fatal", !.err = "Null", !.errArg = 0, !.at = r.off + 16]
       ELSE RefWalk(w, i + 1, "P", [acc EXCEPT !.sess = acc.sess + 1, !.slen = 0,
                                               !.req = [id |-> r.id, role |-> r.role, flags |-> r.flags]])
  ELSE \* m = "P"
       IF r.ty = TParams /\ r.id = acc.req.id
       THEN IF r.clen = 0 THEN [acc EXCEPT !.res = "request", !.at = RecEnd(r)]
            ELSE RefWalk(w, i + 1, m, [acc EXCEPT !.slen = acc.slen + r.clen])
       ELSE IF r.ty = TAbort /\ r.id = acc.req.id
       THEN RefWalk(w, i + 1, "H", [add(REnd(acc.req.id, 0), r.off + 8) EXCEPT !.req = NoReq])
       ELSE IF r.ty = TBegin /\ r.id # acc.req.id THEN RefWalk(w, i + 1, m, add(REnd(r.id, 1), r.off + 8))
       ELSE RefWalk(w, i + 1, m, acc)

RefAcc0 == [replies |-> <<>>, sess |-> 0, req |-> NoReq, slen |-> 0, res |-> "", err |-> "", errArg |-> 0, at |-> 0]
\* reference result for a parser starting at record index i with `sess` sessions already seen
RefReqFrom(w, i, sess) == RefWalk(w, i, "H", [RefAcc0 EXCEPT !.sess = sess])
RefReq(w) == RefReqFrom(w, 1, 0)

\* The reference above assumes every record it looks at is present; a wire cut in
\* the middle of a record yields "more" once the cut is reached.
RefResAt(w, ref, fed) == IF fed >= ref.at /\ ref.res # "more" /\ ref.at <= w.len THEN ref.res ELSE "more"

RefRepliesUpTo(ref, fed) ==
  LET S == SelectSeq(ref.replies, LAMBDA x : x.due <= fed) IN [i \in 1..Len(S) |-> S[i].r]
=============================================================================
