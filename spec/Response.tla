------------------------------ MODULE Response ------------------------------
(***************************************************************************)
(* CGI response header writers (src/cgi/response.rs).  Byte strings are    *)
(* sequences; the reason phrase is an input (it comes from the `http`      *)
(* crate's table, "Custom" when the code has no canonical phrase).         *)
(***************************************************************************)
EXTENDS Naturals, Sequences

Digits3(code) == << 48 + (code \div 100), 48 + ((code \div 10) % 10), 48 + (code % 10) >>
StatusPrefix == << 83, 116, 97, 116, 117, 115, 58, 32 >>            \* "Status: "
LocationPrefix == << 76, 111, 99, 97, 116, 105, 111, 110, 58, 32 >> \* "Location: "
NL == 10

RECURSIVE HeaderLines(_)
HeaderLines(hs) ==
  IF hs = <<>> THEN <<>>
  ELSE << NL >> \o Head(hs)[1] \o << 58, 32 >> \o Head(hs)[2] \o HeaderLines(Tail(hs))

\* "Status: <code> <reason>" then "\n<name>: <value>" per header, then a blank line
Headers(code, reason, hs) == StatusPrefix \o Digits3(code) \o << 32 >> \o reason \o HeaderLines(hs) \o << NL, NL >>
Redirect(loc) == LocationPrefix \o loc \o << NL, NL >>

\* writing bytes into a destination of capacity cap: success and the count iff everything fits
WriteInto(cap, bytes) == IF Len(bytes) <= cap THEN [ok |-> TRUE, n |-> Len(bytes)] ELSE [ok |-> FALSE, n |-> 0]
=============================================================================
