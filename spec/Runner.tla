------------------------------- MODULE Runner -------------------------------
(***************************************************************************)
(* Runner::get_token / Token (src/async_io/mod.rs 570-583, 731-766):       *)
(* connection tokens are permits of an async-lock 3.4 Semaphore shared by  *)
(* a runner and all its clones; waiting requests are event-listener 5.3    *)
(* listeners.  Call-atomic model: one action per public operation          *)
(* (create a request future, poll it, drop it while pending, drop a        *)
(* token), with the dependency semantics of DESIGN.md appendix D:          *)
(*   poll   = loop { try_acquire -> Ready ; no listener -> listen, again ; *)
(*                   listener notified -> discard it, again ; Pending }    *)
(*   release= count += 1 ; notify(1) (non-additional: only if no listener  *)
(*            is currently notified; wakes the first un-notified one)      *)
(*   dropping a notified listener passes its notification on               *)
(***************************************************************************)
EXTENDS Naturals, Sequences, FiniteSets, TLC

CONSTANTS MaxConns, NF        \* connection limit, number of request futures

VARIABLES count,    \* free permits
          q,        \* FIFO of listeners: [f, notified]
          fst,      \* f -> "none" | "new" | "pending" | "token" | "released" | "cancelled"
          wp,       \* f -> the future's task was woken since its last poll
          rhist
rvars == <<count, q, fst, wp, rhist>>

F == 1..NF
RInit == count = MaxConns /\ q = <<>> /\ fst = [f \in F |-> "none"] /\ wp = [f \in F |-> FALSE] /\ rhist = <<>>

Idx(s, f) == IF \E i \in 1..Len(s) : s[i].f = f THEN CHOOSE i \in 1..Len(s) : s[i].f = f ELSE 0
Remove(s, i) == SubSeq(s, 1, i - 1) \o SubSeq(s, i + 1, Len(s))
NotifiedCount(s) == Cardinality({ i \in 1..Len(s) : s[i].notified })

\* Event::notify(1): [q, woken] where woken is the future whose task is woken (0 = none)
Notify1(s) ==
  IF NotifiedCount(s) >= 1 THEN [q |-> s, woken |-> 0]
  ELSE LET U == { i \in 1..Len(s) : ~s[i].notified } IN
       IF U = {} THEN [q |-> s, woken |-> 0]
       ELSE LET i == CHOOSE i \in U : \A j \in U : i <= j
            IN [q |-> [s EXCEPT ![i].notified = TRUE], woken |-> s[i].f]

\* drop of a listener (propagates a notification it had received)
DropListener(s, f) ==
  LET i == Idx(s, f) IN
  IF i = 0 THEN [q |-> s, woken |-> 0]
  ELSE IF s[i].notified THEN Notify1(Remove(s, i)) ELSE [q |-> Remove(s, i), woken |-> 0]

Wake(w, f) == IF f = 0 THEN w ELSE [w EXCEPT ![f] = TRUE]

NewFut(f) ==
  /\ fst[f] = "none" /\ \A g \in F : g < f => fst[g] # "none"
  /\ fst' = [fst EXCEPT ![f] = "new"]
  /\ rhist' = Append(rhist, << "new", f >>)
  /\ UNCHANGED <<count, q, wp>>

\* one poll of the acquire future of f; result "ready" | "pending"
RECURSIVE AcquireLoop(_, _, _)
AcquireLoop(cnt, s, f) ==
  IF cnt > 0 THEN [res |-> "ready", count |-> cnt - 1, q |-> s]
  ELSE LET i == Idx(s, f) IN
       IF i = 0 THEN AcquireLoop(cnt, Append(s, [f |-> f, notified |-> FALSE]), f)   \* listen(), then try again
       ELSE IF s[i].notified THEN AcquireLoop(cnt, Remove(s, i), f)                  \* listener ready: discard it, try again
       ELSE [res |-> "pending", count |-> cnt, q |-> s]
     \* (with cnt = 0 the second iteration after listen() ends in "pending")

PollFut(f) ==
  /\ fst[f] \in {"new", "pending"}
  /\ LET r == AcquireLoop(count, q, f) IN
     IF r.res = "ready"
     THEN \* the acquire future is dropped on completion: its listener (if any) goes, passing on a notification
          LET d == DropListener(r.q, f) IN
          /\ count' = r.count /\ q' = d.q /\ fst' = [fst EXCEPT ![f] = "token"]
          /\ wp' = Wake([wp EXCEPT ![f] = FALSE], d.woken)
          /\ rhist' = Append(rhist, << "poll", f, "ready" >>)
     ELSE /\ count' = r.count /\ q' = r.q /\ fst' = [fst EXCEPT ![f] = "pending"]
          /\ wp' = [wp EXCEPT ![f] = FALSE]
          /\ rhist' = Append(rhist, << "poll", f, "pending" >>)

DropFut(f) ==
  /\ fst[f] \in {"new", "pending"}
  /\ LET d == DropListener(q, f) IN q' = d.q /\ wp' = Wake(wp, d.woken)
  /\ fst' = [fst EXCEPT ![f] = "cancelled"]
  /\ rhist' = Append(rhist, << "dropf", f >>)
  /\ UNCHANGED count

DropToken(f) ==
  /\ fst[f] = "token"
  /\ LET n == Notify1(q) IN q' = n.q /\ wp' = Wake(wp, n.woken)
  /\ count' = count + 1
  /\ fst' = [fst EXCEPT ![f] = "released"]
  /\ rhist' = Append(rhist, << "dropt", f >>)

RNext == \E f \in F : NewFut(f) \/ PollFut(f) \/ DropFut(f) \/ DropToken(f)

\* ------------------------------------------------------------------ properties (C13)
LiveTokens == Cardinality({ f \in F : fst[f] = "token" })
TokenBound == LiveTokens <= MaxConns /\ LiveTokens + count = MaxConns
\* a free slot with requests pending => one of them has been woken (or has not been polled yet and will take it)
NoStrandedSlot == (count > 0 /\ \E f \in F : fst[f] = "pending") => \E f \in F : fst[f] = "pending" /\ wp[f]
\* a request completes at once when a slot is free (whether or not others are queued: barging is allowed)
ImmediateWhenFree ==
  [][\A f \in F : (fst[f] \in {"new", "pending"} /\ count > 0 /\ rhist' # rhist /\ rhist'[Len(rhist')] = << "poll", f, "pending" >>) => FALSE]_rvars
QueueSane == \A i \in 1..Len(q) : fst[q[i].f] = "pending"
=============================================================================
