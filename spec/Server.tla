------------------------------- MODULE Server -------------------------------
(***************************************************************************)
(* A runner and its clone side by side (src/async_io/mod.rs 731-783):      *)
(* both hand out tokens from ONE semaphore (Runner.tla), but each has its  *)
(* own stop event and its own wait-group - "cloned instances share a       *)
(* single connection limit, but must be shut down separately".             *)
(* Call-atomic, on top of Runner.tla's actions:                            *)
(*   Shutdown(r)      r.shutdown(): consumes the runner (the borrow        *)
(*                    checker admits it only when no get_token future of r *)
(*                    is outstanding), notifies the stop listeners of the  *)
(*                    tokens r has handed out, returns r's shutdown future *)
(*   PollShutdown(r)  Ready iff no token handed out by r is alive          *)
(* Request futures with an odd index belong to runner 1, even to runner 2  *)
(* (the clone).  This goes beyond the listed properties (C13 speaks about  *)
(* the shared limit, C14 about one runner); it is checked by `check EXTRA` *)
(* and replayed on the real Runner / Token / Token::run.                   *)
(***************************************************************************)
EXTENDS Runner

VARIABLES alive,     \* r -> the runner value still exists (shutdown() consumes it)
          sfut,      \* r -> "none" | "pending" | "done": r's shutdown future
          sreg,      \* r -> the shutdown future has been polled Pending (its waker is registered)
          swake,     \* r -> the shutdown future's task was woken since its last poll
          stopped,   \* f -> the token's stop listener has been notified
          shist
svars == <<alive, sfut, sreg, swake, stopped, shist>>
allvars == <<rvars, svars>>

R == {1, 2}
Owner(f) == IF f % 2 = 1 THEN 1 ELSE 2
TokensOf(r) == { f \in F : Owner(f) = r /\ fst[f] = "token" }

SInit ==
  /\ RInit
  /\ alive = [r \in R |-> TRUE] /\ sfut = [r \in R |-> "none"] /\ sreg = [r \in R |-> FALSE] /\ swake = [r \in R |-> FALSE]
  /\ stopped = [f \in F |-> FALSE] /\ shist = <<>>

SRec(e) == shist' = Append(shist, e)

SNewFut(f) == alive[Owner(f)] /\ NewFut(f) /\ SRec(<< "new", f >>) /\ UNCHANGED <<alive, sfut, sreg, swake, stopped>>
SPollFut(f) ==
  /\ PollFut(f)
  /\ SRec(<< "poll", f, IF fst'[f] = "token" THEN "ready" ELSE "pending" >>)
  /\ UNCHANGED <<alive, sfut, sreg, swake, stopped>>
SDropFut(f) == DropFut(f) /\ SRec(<< "dropf", f >>) /\ UNCHANGED <<alive, sfut, sreg, swake, stopped>>

\* dropping the last token a shut-down runner had handed out wakes that runner's shutdown future (if registered)
SDropToken(f) ==
  /\ DropToken(f)
  /\ LET r == Owner(f) IN
     IF TokensOf(r) = {f} /\ sreg[r]
     THEN swake' = [swake EXCEPT ![r] = TRUE] /\ sreg' = [sreg EXCEPT ![r] = FALSE]
     ELSE UNCHANGED <<swake, sreg>>
  /\ SRec(<< "dropt", f >>)
  /\ UNCHANGED <<alive, sfut, stopped>>

Shutdown(r) ==
  /\ alive[r] /\ \A f \in F : Owner(f) = r => fst[f] \notin {"new", "pending"}
  /\ alive' = [alive EXCEPT ![r] = FALSE]
  /\ sfut' = [sfut EXCEPT ![r] = "pending"]
  /\ stopped' = [f \in F |-> stopped[f] \/ f \in TokensOf(r)]
  /\ SRec(<< "shutdown", r >>)
  /\ UNCHANGED <<rvars, sreg, swake>>

PollShutdown(r) ==
  /\ sfut[r] = "pending"
  /\ IF TokensOf(r) = {}
     THEN sfut' = [sfut EXCEPT ![r] = "done"] /\ sreg' = [sreg EXCEPT ![r] = FALSE] /\ SRec(<< "polls", r, "ready" >>)
     ELSE sfut' = sfut /\ sreg' = [sreg EXCEPT ![r] = TRUE] /\ SRec(<< "polls", r, "pending" >>)
  /\ swake' = [swake EXCEPT ![r] = FALSE]
  /\ UNCHANGED <<rvars, alive, stopped>>

SNext ==
  \/ \E f \in F : SNewFut(f) \/ SPollFut(f) \/ SDropFut(f) \/ SDropToken(f)
  \/ \E r \in R : Shutdown(r) \/ PollShutdown(r)

\* ------------------------------------------------------------------ properties
\* one limit for both runners (TokenBound of Runner.tla speaks about all tokens)
SharedLimit == TokenBound
\* a runner's shutdown future completes exactly for that runner's tokens
ShutdownOwnTokensOnly == \A r \in R : sfut[r] = "done" => TokensOf(r) = {}
\* ... and is not held up by the other runner's tokens: once r's tokens are gone a registered future has been woken
ShutdownNotHeldByOther == \A r \in R : (sfut[r] = "pending" /\ TokensOf(r) = {} /\ shist # <<>> /\ \E i \in 1..Len(shist) : shist[i] = << "polls", r, "pending" >>) => swake[r]
\* stop reaches exactly the tokens handed out by a runner that has been shut down while they were alive
StopOwnTokensOnly == \A f \in F : (stopped[f] /\ fst[f] = "token") => ~alive[Owner(f)]
StopReachesAll == \A f \in F : (fst[f] = "token" /\ ~alive[Owner(f)]) => stopped[f]
=============================================================================
