----------------------------- MODULE StreamParser -----------------------------
(***************************************************************************)
(* The stream parser of fastcgi-server (src/parser/stream.rs) over the     *)
(* abstract wire.  The internal buffer is modelled by its four indices     *)
(*   [gap] ps <parsed> gs [gap] rs <raw> fs <free>,  ps <= gs <= rs <= fs <= B   *)
(* together with the identity of its content: the raw region is the wire   *)
(* interval [rawLo, rawLo + fs - rs), the parsed region a sequence of wire *)
(* intervals `piv` of total length gs - ps.  Delivered stream data is      *)
(* likewise a sequence of wire intervals, so loss, duplication and         *)
(* reordering are visible at any payload size.                             *)
(* Operators transcribe DESIGN.md appendix B; SP_Parse is Parser::parse.   *)
(***************************************************************************)
EXTENDS ReqParser

\* ------------------------------------------------------------------ intervals
IvLen(iv) == iv[2] - iv[1]
RECURSIVE IvsLen(_)
IvsLen(s) == IF s = <<>> THEN 0 ELSE IvLen(Head(s)) + IvsLen(Tail(s))

\* append, merging with an adjacent predecessor; empty intervals vanish
IvAppend(s, iv) ==
  IF iv[1] = iv[2] THEN s
  ELSE IF s # <<>> /\ s[Len(s)][2] = iv[1]
       THEN [s EXCEPT ![Len(s)] = << s[Len(s)][1], iv[2] >>]
       ELSE Append(s, iv)

RECURSIVE IvConcat(_, _)
IvConcat(s, t) == IF t = <<>> THEN s ELSE IvConcat(IvAppend(s, Head(t)), Tail(t))

\* drop / take the first k bytes
RECURSIVE IvDrop(_, _)
IvDrop(s, k) ==
  IF k = 0 \/ s = <<>> THEN s
  ELSE IF IvLen(Head(s)) <= k THEN IvDrop(Tail(s), k - IvLen(Head(s)))
  ELSE << << Head(s)[1] + k, Head(s)[2] >> >> \o Tail(s)
RECURSIVE IvTake(_, _)
IvTake(s, k) ==
  IF k = 0 \/ s = <<>> THEN <<>>
  ELSE IF IvLen(Head(s)) <= k THEN << Head(s) >> \o IvTake(Tail(s), k - IvLen(Head(s)))
  ELSE << << Head(s)[1], Head(s)[1] + k >> >>

\* p is a prefix of r as byte sequences (both merged-normal forms over record bodies)
IvIsPrefix(p, r) ==
  \/ p = <<>>
  \/ /\ Len(p) <= Len(r)
     /\ \A i \in 1..(Len(p) - 1) : p[i] = r[i]
     /\ p[Len(p)][1] = r[Len(p)][1] /\ p[Len(p)][2] <= r[Len(p)][2]

\* ------------------------------------------------------------------ stream order (fields.rs, cmp_input_streams)
NoStream == 0
InputStreams(role) == CASE role = 1 -> << TStdin >> [] role = 3 -> << TStdin, TData >> [] OTHER -> << >>
FirstStream(role) == IF InputStreams(role) = <<>> THEN NoStream ELSE InputStreams(role)[1]
NextStream(role, cur) ==
  IF cur = NoStream THEN FirstStream(role)      \* next_input_stream(None)
  ELSE IF role = 3 /\ cur = TStdin THEN TData ELSE NoStream
IsInputStream(ty) == ty \in {TStdin, TData}
Pos(seq, x) == IF \E i \in 1..Len(seq) : seq[i] = x THEN CHOOSE i \in 1..Len(seq) : seq[i] = x ELSE 0

\* "Less" | "Equal" | "Greater"
CmpStreams(role, recv, exp) ==
  IF exp = NoStream THEN "Less"
  ELSE IF recv = exp THEN "Equal"
  ELSE LET ss == InputStreams(role)  pr == Pos(ss, recv)  pe == Pos(ss, exp) IN
       IF pr = 0 THEN "Less"
       ELSE IF pe # 0 /\ pe < pr THEN "Greater" ELSE "Less"

\* ------------------------------------------------------------------ state
\* created by request::Parser::into_stream_parser: the buffer holds the `la`
\* bytes [lo, lo + la) that followed the preamble
SPInit(req, lo, la, ri, sess) ==
  [ps |-> 0, gs |-> 0, rs |-> 0, fs |-> la, rawLo |-> lo, piv |-> <<>>,
   payRem |-> 0, padRem |-> 0, mode |-> "Skip", vars |-> {}, stream |-> FirstStream(req.role),
   req |-> req, outq |-> <<>>, outStart |-> 0, ri |-> ri, sess |-> sess]

RawLen(st) == st.fs - st.rs
SFed(st) == st.rawLo + RawLen(st)                  \* wire offset of the next byte to be fed
ParsedLen(st) == st.gs - st.ps
SFree(B, st) == B - st.fs
AtBoundary(st) == st.payRem = 0 /\ st.padRem = 0

RECURSIVE OutBytes(_, _)
OutBytes(q, nd) == IF q = <<>> THEN 0 ELSE ReplyLen(Head(q), nd) + OutBytes(Tail(q), nd)
OutLen(st, nd) == OutBytes(st.outq, nd) - st.outStart      \* length of output_buffer()

\* ------------------------------------------------------------------ parse_payload
\* acc = [st, res, dest (remaining capacity, -1 = None), got (intervals written to dest), brk, err, arg]
ParsePayload(w, nd, acc) ==
  LET st == acc.st
      rawLen == RawLen(st)
      plen == Min2(st.payRem, rawLen)
      r == w.recs[st.ri - 1]
  IN
  CASE st.mode = "Stream" ->
         LET k == IF acc.dest >= 0 THEN Min2(acc.dest, plen) ELSE plen
             iv == << st.rawLo, st.rawLo + k >>
             st2 == [st EXCEPT !.rs = st.rs + k, !.rawLo = st.rawLo + k, !.payRem = st.payRem - k,
                               !.gs = IF acc.dest >= 0 THEN st.gs ELSE st.gs + k,
                               !.piv = IF acc.dest >= 0 THEN st.piv ELSE IvAppend(st.piv, iv)]
         IN [acc EXCEPT !.st = st2, !.res.stream = acc.res.stream + k,
                        !.dest = IF acc.dest >= 0 THEN acc.dest - k ELSE acc.dest,
                        !.got = IF acc.dest >= 0 THEN IvAppend(acc.got, iv) ELSE acc.got,
                        !.brk = ~(st2.payRem = 0 /\ k < rawLen)]
    [] st.mode = "Skip" ->
         LET st2 == [st EXCEPT !.rs = st.rs + plen, !.rawLo = st.rawLo + plen, !.payRem = st.payRem - plen]
         IN [acc EXCEPT !.st = st2, !.brk = ~(st2.payRem = 0 /\ plen < rawLen)]
    [] st.mode = "Values" ->
         LET a == r.clen - st.payRem
             vars2 == (st.vars \cup { r.gv[i].var : i \in GvIn(r, a, plen) }) \ {0}
             complete == ~(rawLen < st.payRem)
             k == IF complete THEN plen ELSE GvLastEnd(r, a, plen) - a
             rep == RGvr(vars2)
             st2 == [st EXCEPT !.rs = st.rs + k, !.rawLo = st.rawLo + k, !.payRem = st.payRem - k, !.vars = vars2,
                               !.outq = IF complete THEN Append(st.outq, rep) ELSE st.outq]
         IN [acc EXCEPT !.st = st2,
                        !.res.output = IF complete THEN acc.res.output + ReplyLen(rep, nd) ELSE acc.res.output,
                        !.brk = ~(st2.payRem = 0 /\ k < rawLen)]

\* ------------------------------------------------------------------ parse_head
ParseHead(w, nd, acc) ==
  LET st == acc.st IN
  IF RawLen(st) < 8 \/ st.ri > Len(w.recs) THEN [acc EXCEPT !.brk = TRUE]
  ELSE
  LET r == w.recs[st.ri]
      past == [st EXCEPT !.rs = st.rs + 8, !.rawLo = st.rawLo + 8, !.ri = st.ri + 1, !.payRem = r.clen, !.padRem = r.plen]
      own == r.id = st.req.id
  IN
  IF r.ver # 1 THEN [acc EXCEPT !.brk = TRUE, !.err = "Version", !.arg = r.ver]
  ELSE IF r.ty \notin KnownTypes
  THEN [acc EXCEPT !.st = [past EXCEPT !.mode = "Skip", !.outq = Append(st.outq, RUnknown(r.ty, r.id))],
                   !.res.output = acc.res.output + 16]
  ELSE IF IsInputStream(r.ty) /\ own
  THEN LET c == CmpStreams(st.req.role, r.ty, st.stream) IN
       IF c = "Equal" /\ r.clen # 0 THEN [acc EXCEPT !.st = [past EXCEPT !.mode = "Stream"]]
       ELSE IF c = "Less" THEN [acc EXCEPT !.st = [past EXCEPT !.mode = "Skip"]]
       ELSE [acc EXCEPT !.res.end = TRUE, !.brk = TRUE]          \* end of stream / later stream: header kept
  ELSE IF r.ty = TAbort /\ own THEN [acc EXCEPT !.brk = TRUE, !.err = "Abort", !.arg = 0]   \* header kept
  ELSE IF r.ty = TBegin /\ ~own
  THEN [acc EXCEPT !.st = [past EXCEPT !.mode = "Skip", !.outq = Append(st.outq, REnd(r.id, 1))],
                   !.res.output = acc.res.output + 16]
  ELSE IF r.ty = TGetValues /\ r.id = 0 THEN [acc EXCEPT !.st = [past EXCEPT !.mode = "Values", !.vars = {}]]
  ELSE [acc EXCEPT !.st = [past EXCEPT !.mode = "Skip"]]

\* ------------------------------------------------------------------ Parser::parse
RECURSIVE SPLoop(_, _, _)
SPLoop(w, nd, acc) ==
  IF RawLen(acc.st) = 0 THEN acc
  ELSE
  LET a1 == IF acc.st.payRem > 0 THEN ParsePayload(w, nd, acc) ELSE acc IN
  IF a1.brk THEN a1
  ELSE
  LET st1 == a1.st
      rawLen == RawLen(st1)
  IN IF st1.padRem > 0 /\ rawLen <= st1.padRem
     THEN [a1 EXCEPT !.st = [st1 EXCEPT !.rs = st1.fs, !.rawLo = st1.rawLo + rawLen, !.padRem = st1.padRem - rawLen], !.brk = TRUE]
     ELSE LET st2 == [st1 EXCEPT !.rs = st1.rs + st1.padRem, !.rawLo = st1.rawLo + st1.padRem, !.padRem = 0]
              a2 == ParseHead(w, nd, [a1 EXCEPT !.st = st2])
          IN IF a2.brk THEN a2 ELSE SPLoop(w, nd, a2)

\* dest = -1 for None, else the capacity of the caller's buffer.
\* Preconditions (asserted by the code): n <= B - fs; dest = -1 or the stream buffer is empty.
SP_Parse(w, nd, st, n, dest) ==
  LET acc0 == [st |-> [st EXCEPT !.fs = st.fs + n],
               res |-> [stream |-> 0, output |-> 0, end |-> st.stream = NoStream],
               dest |-> dest, got |-> <<>>, brk |-> FALSE, err |-> "", arg |-> 0]
      a == SPLoop(w, nd, acc0)
  IN [st |-> a.st, res |-> a.res, got |-> a.got, err |-> a.err, arg |-> a.arg]

\* ------------------------------------------------------------------ the other public calls
SP_Compress(st) ==
  LET gs2 == st.gs - st.ps IN
  [st EXCEPT !.ps = 0, !.gs = gs2, !.fs = st.fs - (st.rs - gs2), !.rs = gs2]

SP_Discard(st) == SP_Compress([st EXCEPT !.ps = 0, !.gs = 0, !.piv = <<>>])

SP_ConsumeStream(st, k) ==
  LET m == Min2(k, ParsedLen(st)) IN [st EXCEPT !.ps = st.ps + m, !.piv = IvDrop(st.piv, m)]

SP_ConsumeOutput(st, nd, k) ==
  IF k >= OutLen(st, nd) THEN [st EXCEPT !.outq = <<>>, !.outStart = 0]
  ELSE [st EXCEPT !.outStart = st.outStart + k]

\* returns [ok, st]
SP_SetStream(st, s) ==
  IF s # NoStream /\ CmpStreams(st.req.role, s, st.stream) = "Less" THEN [ok |-> FALSE, st |-> st]
  ELSE IF s # st.stream
       THEN [ok |-> TRUE, st |-> [SP_Discard([st EXCEPT !.mode = IF st.mode = "Stream" THEN "Skip" ELSE st.mode]) EXCEPT !.stream = s]]
       ELSE [ok |-> TRUE, st |-> st]

\* into_input / into_request_parser: "interrupted" unless at a record boundary;
\* the handed-over bytes are the raw region = wire[rawLo, SFed)
SP_ConvClass(st) == IF AtBoundary(st) THEN "ok" ELSE "interrupted"

\* ------------------------------------------------------------------ reference semantics
\* The content of stream s for a caller that made s active when the parser stood at
\* record index i (mid-record remainder of an older stream is skipped by construction):
\* walk the records; own-id input-stream records are compared with s by the role's order.
\* Result: [ivs (merged wire intervals of the stream's bytes), stop ("eos"|"abort"|"version"|"more"), at (record index)]
RECURSIVE RefStreamWalk(_, _, _, _, _)
RefStreamWalk(w, i, req, s, ivs) ==
  IF i > Len(w.recs) THEN [ivs |-> ivs, stop |-> "more", at |-> i]
  ELSE
  LET r == w.recs[i] IN
  IF r.ver # 1 THEN [ivs |-> ivs, stop |-> "version", at |-> i]
  ELSE IF r.ty \in KnownTypes /\ r.id = req.id /\ r.ty = TAbort THEN [ivs |-> ivs, stop |-> "abort", at |-> i]
  ELSE IF IsInputStream(r.ty) /\ r.id = req.id
  THEN LET c == CmpStreams(req.role, r.ty, s) IN
       IF c = "Equal" /\ r.clen # 0 THEN RefStreamWalk(w, i + 1, req, s, IvAppend(ivs, << BodyOff(r), BodyOff(r) + r.clen >>))
       ELSE IF c = "Less" THEN RefStreamWalk(w, i + 1, req, s, ivs)
       ELSE [ivs |-> ivs, stop |-> "eos", at |-> i]
  ELSE RefStreamWalk(w, i + 1, req, s, ivs)

RefStream(w, i, req, s) == RefStreamWalk(w, i, req, s, <<>>)

\* restriction of an interval sequence to wire offsets below lim (bytes not yet fed cannot be delivered)
RECURSIVE IvBelow(_, _)
IvBelow(s, lim) ==
  IF s = <<>> THEN <<>>
  ELSE IF Head(s)[1] >= lim THEN <<>>
  ELSE IF Head(s)[2] <= lim THEN << Head(s) >> \o IvBelow(Tail(s), lim)
  ELSE << << Head(s)[1], lim >> >>

\* replies the stream parser owes for the records from index i on, with due offsets
RECURSIVE RefStreamReplies(_, _, _, _)
RefStreamReplies(w, i, req, acc) ==
  IF i > Len(w.recs) THEN acc
  ELSE LET r == w.recs[i] IN
       IF r.ver # 1 THEN acc
       ELSE IF r.ty \notin KnownTypes THEN RefStreamReplies(w, i + 1, req, Append(acc, [r |-> RUnknown(r.ty, r.id), due |-> r.off + 8, rec |-> i]))
       ELSE IF r.ty = TGetValues /\ r.id = 0 /\ r.clen > 0
       THEN RefStreamReplies(w, i + 1, req, Append(acc, [r |-> RGvr({ r.gv[j].var : j \in 1..Len(r.gv) } \ {0}), due |-> r.off + 8 + r.clen, rec |-> i]))
       ELSE IF r.ty = TBegin /\ r.id # req.id THEN RefStreamReplies(w, i + 1, req, Append(acc, [r |-> REnd(r.id, 1), due |-> r.off + 8, rec |-> i]))
       ELSE RefStreamReplies(w, i + 1, req, acc)
=============================================================================
