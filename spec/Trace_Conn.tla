------------------------------ MODULE Trace_Conn ------------------------------
(***************************************************************************)
(* Trace validation for the connection layer: executions of the real       *)
(* Token::run on seeded random connections (realistic sizes, random        *)
(* handler programs, random transport behaviour) are recorded at the mock  *)
(* transport - one event per transport call with its outcome - and must be *)
(* behaviours of Conn.tla.  Events:                                        *)
(*   reset {scen}            new connection (scen as in MC_Conn)           *)
(*   go {stop}               first poll of the task                        *)
(*   r {n} / r0 / re         a read returned n > 0 bytes / 0 / an error    *)
(*   w {k} / we {kind}       a write accepted k bytes / failed             *)
(*   rp {stop} / wp {stop}   spurious Pending (optionally with shutdown)   *)
(*   park {stop}             suspended on a read with nothing released     *)
(*   end {returned, outw, items, hlog, nreq}   final observation           *)
(***************************************************************************)
EXTENDS Conn, Json, IOUtils, TLC

TLog == ndJsonDeserialize(IOEnv.TRACE)

VARIABLES l, sc, c
tvars == <<l, sc, c>>

NoSc == [tag |-> "", w |-> [recs |-> <<>>, len |-> 0, pairs |-> <<>>], gates |-> <<>>, close |-> FALSE, progs |-> <<>>, onAbort |-> <<>>, fault |-> [k |-> "none", at |-> 0]]
TraceInit == l = 1 /\ sc = NoSc /\ c = CInit(NoSc)

IsEvent(e) == l <= Len(TLog) /\ TLog[l].e = e /\ l' = l + 1

Reset == IsEvent("reset") /\ sc' = TLog[l].scen /\ c' = CInit(TLog[l].scen)
Go == IsEvent("go") /\ c.pc = "PR_top" /\ c' = Run(sc, [c EXCEPT !.stop = TLog[l].stop]) /\ UNCHANGED sc

Avail == Released(sc, c) - c.inRead
TRead ==
  /\ IsEvent("r") /\ c.pc \in ReadPcs
  /\ LET n == TLog[l].n IN
     \* during the preamble the room offered depends on how many unparsed bytes the implementation keeps (its choice);
     \* the hard bound is the buffer.  In the stream phases the buffer is compacted before every read.
     /\ n >= 1 /\ n <= (IF c.pc = "PR_read" THEN B ELSE ReadCap(c)) /\ n <= Avail
     /\ c' = Run(sc, AfterRead(sc, c, n))
  /\ UNCHANGED sc
TRead0 ==
  /\ IsEvent("r0") /\ c.pc \in ReadPcs /\ (AtEof(sc, c) \/ ReadCap(c) = 0)
  /\ c' = Run(sc, AfterRead(sc, c, 0)) /\ UNCHANGED sc
TReadErr ==
  /\ IsEvent("re") /\ c.pc \in ReadPcs /\ sc.fault.k = "rerr" /\ sc.fault.at = c.inRead
  /\ c' = Run(sc, ReadFails(sc, c)) /\ UNCHANGED sc
\* How the outbound bytes are grouped into transport calls is not pinned down by any property (one vectored write may
\* carry the end of one logical write and the start of the next, as long as nothing but internal steps lies between
\* them): a logged write of k bytes is matched against the outbound byte STREAM, across consecutive logical writes.
RECURSIVE WriteK(_, _)
WriteK(cc, k) ==
  IF k = 0 THEN [ok |-> TRUE, c |-> cc]
  ELSE IF cc.pc \notin WritePcs \/ (sc.fault.k \in {"werr", "wzero"} /\ sc.fault.at = cc.outw) THEN [ok |-> FALSE, c |-> cc]
  ELSE LET k1 == Min2(k, cc.wrem) IN WriteK(Run(sc, AfterWrite(sc, cc, k1)), k - k1)
TWrite ==
  /\ IsEvent("w") /\ c.pc \in WritePcs
  /\ LET k == TLog[l].k  r == WriteK(c, k) IN k >= 1 /\ r.ok /\ c' = r.c
  /\ UNCHANGED sc
TWriteErr ==
  /\ IsEvent("we") /\ c.pc \in WritePcs /\ sc.fault.k \in {"werr", "wzero"} /\ sc.fault.at = c.outw
  /\ c' = Run(sc, WriteFails(sc, c, TLog[l].kind)) /\ UNCHANGED sc
TSpurR ==
  /\ IsEvent("rp") /\ c.pc \in ReadPcs /\ Avail > 0
  /\ c' = Run(sc, Repoll(sc, [c EXCEPT !.stop = c.stop \/ TLog[l].stop])) /\ UNCHANGED sc
TSpurW ==
  /\ IsEvent("wp") /\ c.pc \in WritePcs
  /\ c' = Run(sc, Repoll(sc, [c EXCEPT !.stop = c.stop \/ TLog[l].stop])) /\ UNCHANGED sc
TPark ==
  /\ IsEvent("park") /\ ParkedOnRead(sc, c)
  /\ c' = (IF TLog[l].stop THEN Run(sc, Repoll(sc, [c EXCEPT !.stop = TRUE])) ELSE c) /\ UNCHANGED sc

\* outbound records in a form the harness can decode from bytes
Generic(it) ==
  CASE it.k = "rep" /\ it.r.k = "unk" -> [ty |-> 11, id |-> it.r.b, clen |-> 8, plen |-> 0, x |-> it.r.a, app |-> ""]
    [] it.k = "rep" /\ it.r.k = "end" -> [ty |-> 3, id |-> it.r.a, clen |-> 8, plen |-> 0, x |-> it.r.b, app |-> "0"]
    [] it.k = "rep" /\ it.r.k = "gvr" -> [ty |-> 10, id |-> 0, clen |-> ReplyLen(it.r, ND) - 8 - PadFor(ReplyLen(it.r, ND) - 8), plen |-> 0, x |-> it.r.a, app |-> ""]
    [] it.k = "rec" -> [ty |-> it.s, id |-> it.id, clen |-> it.n, plen |-> PadFor(it.n), x |-> 0, app |-> ""]
    [] it.k = "eos" -> [ty |-> it.s, id |-> it.id, clen |-> 0, plen |-> 0, x |-> 0, app |-> ""]
    [] it.k = "end" -> [ty |-> 3, id |-> it.id, clen |-> 8, plen |-> 0, x |-> it.pstat, app |-> it.app]

\* the GetValuesResult body length is not decoded by the harness as clen+plen split; compare total lengths instead
GenLen(g) == 8 + g.clen + g.plen
TFinal ==
  /\ IsEvent("end")
  /\ LET ev == TLog[l]
         done == Observed(c)
     IN /\ ev.returned = (c.pc = "Ended")
        /\ ev.outw = c.outw
        /\ ev.nreq = c.nreq
        /\ Len(ev.items) = Len(done)
        /\ \A i \in 1..Len(done) :
             LET g == Generic(done[i])  e == ev.items[i] IN
             /\ e.ty = g.ty /\ e.id = g.id /\ e.x = g.x /\ e.app = g.app
             /\ (g.ty = 10 => 8 + e.clen + e.plen = ReplyLen(done[i].r, ND))
             /\ (g.ty # 10 => e.clen = g.clen /\ e.plen = g.plen)
        /\ ev.hlog = [i \in 1..Len(c.hlog) |-> [op |-> c.hlog[i].op, ok |-> c.hlog[i].ok, n |-> c.hlog[i].n, got |-> c.hlog[i].got, err |-> c.hlog[i].err, wr |-> c.hlog[i].wr]]
  /\ UNCHANGED <<sc, c>>

TraceNext == Reset \/ Go \/ TRead \/ TRead0 \/ TReadErr \/ TWrite \/ TWriteErr \/ TSpurR \/ TSpurW \/ TPark \/ TFinal
TraceSpec == TraceInit /\ [][TraceNext]_tvars

Accepted ==
  LET d == TLCGet("stats").diameter IN
  IF d - 1 = Len(TLog) THEN TRUE
  ELSE Print(<< "REJECTED at event", d, IF d <= Len(TLog) THEN [x \in DOMAIN TLog[d] \ {"scen"} |-> TLog[d][x]] ELSE "none" >>, FALSE)
=============================================================================
