SPECIFICATION TraceSpec
CONSTANT Bind = {"done", "out", "conv", "room", "err", "req", "env", "left", "active", "sbuf", "olen", "boundary", "count", "end", "outcount", "got", "setstream"}
POSTCONDITION Accepted
CHECK_DEADLOCK FALSE
