---------------------------- MODULE Trace_Parsers ----------------------------
(***************************************************************************)
(* Trace validation for both synchronous parsers and the conversions       *)
(* between them: an ndjson log recorded from the real code must be a       *)
(* behaviour of ReqParser / StreamParser (C01..C06, C11, C18).             *)
(*                                                                         *)
(* Events (every event carries its arguments and the public observables,   *)
(* so the search is linear):                                               *)
(*  reset      {B, nd, wire}            new connection buffer, new bytes   *)
(*  parse      {n, done, out, ...}      request::Parser::parse             *)
(*  to_stream  {conv}                   into_stream_parser                 *)
(*  sparse     {n, dest, ok, stream, end, output, err, arg, got, newout}   *)
(*  consume    {k, got}   compress {}   consumeout {k}   setstream {s, ok} *)
(*  to_request {conv}                   into_request_parser                *)
(*  to_input   {conv, left}             into_input (observation only)      *)
(* Stream-parser events also log: active, sbuf (intervals), olen, boundary *)
(* Bind selects which logged fields are bound (each property binds what it *)
(* owns; "free" is implementation-shaped).                                 *)
(***************************************************************************)
EXTENDS StreamParser, Json, IOUtils

Log == ndJsonDeserialize(IOEnv.TRACE)
CONSTANT Bind

VARIABLES l, w, B, nd, phase, rp, fed, sp
tvars == <<l, w, B, nd, phase, rp, fed, sp>>

NoWire == [recs |-> <<>>, len |-> 0, pairs |-> <<>>]
NoSp == SPInit(NoReq, 0, 0, 1, 0)

TraceInit == l = 1 /\ w = NoWire /\ B = 24 /\ nd = 1 /\ phase = "req" /\ rp = RPInit /\ fed = 0 /\ sp = NoSp

IsEvent(e) == l <= Len(Log) /\ Log[l].e = e /\ l' = l + 1
Bd(f) == f \in Bind

Reset ==
  /\ IsEvent("reset")
  /\ w' = Log[l].wire /\ B' = Log[l].B /\ nd' = Log[l].nd /\ phase' = "req" /\ rp' = RPInit /\ fed' = 0 /\ sp' = NoSp

EnvMatches(env, logged) ==
  /\ DOMAIN env = { logged[i][1] : i \in 1..Len(logged) }
  /\ \A i \in 1..Len(logged) : \E j \in 1..Len(logged[i][2]) : logged[i][2][j] = env[logged[i][1]]

\* ------------------------------------------------------------------ request parser
TraceParse ==
  /\ IsEvent("parse") /\ phase = "req"
  /\ LET ev == Log[l]
         r == RP_Parse(w, B, rp, fed, ev.n)
         st == r.st
     \* (how many unparsed bytes the implementation keeps in its input buffer - and so how much room it offers - is its own
     \*  choice, e.g. it may move a partial pair header to its side buffer early; the hard bound is the buffer itself)
     IN /\ (Bd("free") => ev.n <= Free(B, rp, fed)) /\ ev.n <= B
        /\ rp' = st /\ fed' = fed + ev.n
        /\ (Bd("done") => ev.done = Final(st))
        /\ (Bd("out") => ev.out = r.out)
        /\ (Bd("conv") => ev.conv = ConvClass(st))
        /\ (Bd("room") => (~Final(st) => (ev.room <=> Free(B, st, fed + ev.n) > 0)))
        /\ (Bd("err") => (st.mode = "Fatal" => ev.err = st.err /\ ev.arg = st.errArg))
        /\ (Bd("req") => (st.mode = "Done" => ev.req = st.req))
        /\ (Bd("env") => (st.mode = "Done" => EnvMatches(st.env, ev.env) /\ ev.envlen = Cardinality(DOMAIN st.env)))
        /\ (Bd("left") => (st.mode = "Done" => ev.left = << st.pos, fed + ev.n >>))
        /\ (Bd("free") => ev.free = Free(B, st, fed + ev.n))
  /\ UNCHANGED <<w, B, nd, phase, sp>>

ToStream ==
  /\ IsEvent("to_stream") /\ phase = "req"
  /\ (Bd("conv") => Log[l].conv = ConvClass(rp))
  /\ IF rp.mode = "Done"
     THEN /\ phase' = "stream"
          /\ sp' = SPInit(rp.req, rp.pos, fed - rp.pos, rp.ri, rp.sess)
          /\ (Bd("active") => Log[l].active = FirstStream(rp.req.role))
          /\ UNCHANGED <<rp, fed>>
     ELSE UNCHANGED <<phase, sp, rp, fed>>
  /\ UNCHANGED <<w, B, nd>>

\* ------------------------------------------------------------------ stream parser
\* observables logged after every stream-parser call
SpObs(ev, st) ==
  /\ (Bd("active") => ev.active = st.stream)
  /\ (Bd("sbuf") => ev.sbuf = st.piv)
  /\ (Bd("olen") => ev.olen = OutLen(st, nd))
  /\ (Bd("boundary") => ev.boundary = AtBoundary(st))
  /\ (Bd("free") => ev.free = SFree(B, st))

\* Where inside its buffer the implementation keeps the bytes is not pinned down by any property: it may reclaim
\* consumed space earlier than the specification does (which moves bytes only in compress()).  When the logged call
\* fed more bytes than the specification's layout has room for and "free" is not bound, the specification's layout
\* is compacted first; the bound that remains is the real one, n <= B - buffered bytes (more would overwrite live data).
Reclaimed(st, n) == IF n <= SFree(B, st) \/ Bd("free") THEN st ELSE SP_Compress(st)

TraceSParse ==
  /\ IsEvent("sparse") /\ phase = "stream"
  /\ LET ev == Log[l]
         sp0 == Reclaimed(sp, ev.n)
         r == SP_Parse(w, nd, sp0, ev.n, ev.dest)
         newout == SubSeq(r.st.outq, Len(sp.outq) + 1, Len(r.st.outq))
     IN /\ ev.n <= SFree(B, sp0)
        /\ (ev.dest >= 0 => ParsedLen(sp) = 0)
        /\ sp' = r.st
        /\ (Bd("err") => (ev.ok <=> r.err = "") /\ (r.err # "" => ev.err = r.err /\ ev.arg = r.arg))
        /\ (r.err = "" /\ ev.ok) =>
             /\ (Bd("count") => ev.stream = r.res.stream)
             /\ (Bd("end") => ev.end = r.res.end)
             /\ (Bd("outcount") => ev.output = r.res.output)
             /\ (Bd("got") => (ev.dest >= 0 => ev.got = r.got))
        /\ (Bd("out") => ev.newout = newout)
        /\ SpObs(ev, r.st)
  /\ UNCHANGED <<w, B, nd, phase, rp, fed>>

TraceConsume ==
  /\ IsEvent("consume") /\ phase = "stream"
  /\ LET ev == Log[l]  m == Min2(ev.k, ParsedLen(sp)) IN
     /\ sp' = SP_ConsumeStream(sp, ev.k)
     /\ (Bd("got") => ev.got = IvTake(sp.piv, m))
     /\ SpObs(ev, sp')
  /\ UNCHANGED <<w, B, nd, phase, rp, fed>>

TraceCompress ==
  /\ IsEvent("compress") /\ phase = "stream"
  /\ sp' = SP_Compress(sp) /\ SpObs(Log[l], sp')
  /\ UNCHANGED <<w, B, nd, phase, rp, fed>>

TraceConsumeOut ==
  /\ IsEvent("consumeout") /\ phase = "stream"
  /\ sp' = SP_ConsumeOutput(sp, nd, Log[l].k) /\ SpObs(Log[l], sp')
  /\ UNCHANGED <<w, B, nd, phase, rp, fed>>

TraceSetStream ==
  /\ IsEvent("setstream") /\ phase = "stream"
  /\ LET r == SP_SetStream(sp, Log[l].s) IN
     /\ sp' = r.st
     /\ (Bd("setstream") => Log[l].ok = r.ok)
     /\ SpObs(Log[l], r.st)
  /\ UNCHANGED <<w, B, nd, phase, rp, fed>>

ToInput ==
  /\ IsEvent("to_input") /\ phase = "stream"
  /\ (Bd("conv") => Log[l].conv = SP_ConvClass(sp))
  /\ (Bd("left") => (AtBoundary(sp) => Log[l].left = << sp.rawLo, SFed(sp) >>))
  /\ UNCHANGED <<w, B, nd, phase, rp, fed, sp>>

ToRequest ==
  /\ IsEvent("to_request") /\ phase = "stream"
  /\ OutLen(sp, nd) = 0                                   \* documented precondition
  /\ (Bd("conv") => Log[l].conv = SP_ConvClass(sp))
  /\ IF AtBoundary(sp)
     THEN /\ phase' = "req" /\ rp' = RPInitAt(sp.rawLo, sp.ri, sp.sess) /\ fed' = SFed(sp)
          /\ (Bd("free") => Log[l].free = B - (SFed(sp) - sp.rawLo))
          /\ UNCHANGED sp
     ELSE UNCHANGED <<phase, rp, fed, sp>>
  /\ UNCHANGED <<w, B, nd>>

TraceNext == Reset \/ TraceParse \/ ToStream \/ TraceSParse \/ TraceConsume \/ TraceCompress \/ TraceConsumeOut
             \/ TraceSetStream \/ ToInput \/ ToRequest
TraceSpec == TraceInit /\ [][TraceNext]_tvars

Accepted ==
  LET d == TLCGet("stats").diameter IN
  IF d - 1 = Len(Log) THEN TRUE
  ELSE Print(<< "REJECTED at event", d, IF d <= Len(Log) THEN [x \in DOMAIN Log[d] \ {"wire"} |-> Log[d][x]] ELSE "none" >>, FALSE)
=============================================================================
