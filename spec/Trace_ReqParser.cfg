SPECIFICATION TraceSpec
CONSTANT Bind = {"done", "out", "conv", "room", "err", "req", "env", "left"}
POSTCONDITION Accepted
CHECK_DEADLOCK FALSE
