--------------------------- MODULE Trace_ReqParser ---------------------------
(***************************************************************************)
(* Trace validation for the request parser: an ndjson log recorded from    *)
(* the real code (harness `rp-trace`) must be a behaviour of ReqParser.    *)
(* Events:                                                                 *)
(*   {"e":"reset","B":b,"wire":{..}}     new parser on a new byte string   *)
(*                                      (wire = the lexer's description)   *)
(*   {"e":"parse","n":n,"done":..,"out":[..],"room":..,"conv":..,"err":.., *)
(*    "arg":..,"req":{..},"env":[[key,[candidate pair indices]]..],        *)
(*    "left":[a,b],"free":k}            one Parser::parse(n) call + the    *)
(*                                      public observables after it        *)
(* Every event carries all arguments, so the search is linear.             *)
(***************************************************************************)
EXTENDS ReqParser, Json, IOUtils

Log == ndJsonDeserialize(IOEnv.TRACE)
CONSTANT Bind         \* which logged fields are bound to the specification: a subset of
                      \* {"done","out","conv","room","err","req","env","left","free"}; each property's
                      \* check binds the fields it owns, "free" is implementation-shaped (DRIFT only)

VARIABLES l, w, B, rp, fed
tvars == <<l, w, B, rp, fed>>

NoWire == [recs |-> <<>>, len |-> 0, pairs |-> <<>>]

TraceInit == l = 1 /\ w = NoWire /\ B = 24 /\ rp = RPInit /\ fed = 0

IsEvent(e) == l <= Len(Log) /\ Log[l].e = e /\ l' = l + 1

Reset ==
  /\ IsEvent("reset")
  /\ w' = Log[l].wire /\ B' = Log[l].B /\ rp' = RPInit /\ fed' = 0

EnvMatches(env, logged) ==
  /\ DOMAIN env = { logged[i][1] : i \in 1..Len(logged) }
  /\ \A i \in 1..Len(logged) : \E j \in 1..Len(logged[i][2]) : logged[i][2][j] = env[logged[i][1]]

TraceParse ==
  /\ IsEvent("parse")
  /\ LET ev == Log[l]
         r == RP_Parse(w, B, rp, fed, ev.n)
         st == r.st
     IN /\ ev.n <= Free(B, rp, fed)                    \* the call respected its precondition
        /\ rp' = st /\ fed' = fed + ev.n
        /\ ("done" \in Bind => ev.done = Final(st))
        /\ ("out" \in Bind => ev.out = r.out)
        /\ ("conv" \in Bind => ev.conv = ConvClass(st))
        /\ ("room" \in Bind => (~Final(st) => (ev.room <=> Free(B, st, fed + ev.n) > 0)))
        /\ ("err" \in Bind => (st.mode = "Fatal" => ev.err = st.err /\ ev.arg = st.errArg))
        /\ ("req" \in Bind => (st.mode = "Done" => ev.req = st.req))
        /\ ("env" \in Bind => (st.mode = "Done" => EnvMatches(st.env, ev.env) /\ ev.envlen = Cardinality(DOMAIN st.env)))
        /\ ("left" \in Bind => (st.mode = "Done" => ev.left = << st.pos, fed + ev.n >>))
        /\ ("free" \in Bind => ev.free = Free(B, st, fed + ev.n))
  /\ UNCHANGED <<w, B>>

TraceNext == Reset \/ TraceParse
TraceSpec == TraceInit /\ [][TraceNext]_tvars

\* one state per consumed event plus the initial state
Accepted ==
  LET d == TLCGet("stats").diameter IN
  IF d - 1 = Len(Log) THEN TRUE
  ELSE Print(<< "REJECTED at event", d, IF d <= Len(Log) THEN [x \in DOMAIN Log[d] \ {"wire"} |-> Log[d][x]] ELSE "none" >>, FALSE)
=============================================================================
