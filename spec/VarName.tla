------------------------------- MODULE VarName -------------------------------
(***************************************************************************)
(* CGI variable names (src/cgi/mod.rs): equality, order and hashing ignore *)
(* ASCII case and nothing else.  Names are sequences of bytes (UTF-8).     *)
(***************************************************************************)
EXTENDS Naturals, Sequences, FiniteSets

Up(b) == IF b >= 97 /\ b <= 122 THEN b - 32 ELSE b
Lo(b) == IF b >= 65 /\ b <= 90 THEN b + 32 ELSE b
Upper(s) == [i \in 1..Len(s) |-> Up(s[i])]
Lower(s) == [i \in 1..Len(s) |-> Lo(s[i])]
Mixed(s) == [i \in 1..Len(s) |-> IF i % 2 = 0 THEN Lo(s[i]) ELSE Up(s[i])]

FoldEq(a, b) == Upper(a) = Upper(b)

\* lexicographic order of the upper-cased byte strings: "lt" | "eq" | "gt"
RECURSIVE LexCmp(_, _)
LexCmp(a, b) ==
  IF a = <<>> THEN (IF b = <<>> THEN "eq" ELSE "lt")
  ELSE IF b = <<>> THEN "gt"
  ELSE IF Head(a) < Head(b) THEN "lt" ELSE IF Head(a) > Head(b) THEN "gt" ELSE LexCmp(Tail(a), Tail(b))
FoldCmp(a, b) == LexCmp(Upper(a), Upper(b))

\* what Hash::hash feeds the hasher: full LANES-byte chunks upper-cased, then the upper-cased
\* remainder followed by the terminator 0xff (which makes the stream prefix-free)
RECURSIVE HashWrites(_, _)
HashWrites(s, lanes) ==
  IF Len(s) >= lanes THEN << Upper(SubSeq(s, 1, lanes)) >> \o HashWrites(SubSeq(s, lanes + 1, Len(s)), lanes)
  ELSE << Upper(s) \o << 255 >> >>

RECURSIVE FlattenW(_)
FlattenW(ws) == IF ws = <<>> THEN <<>> ELSE Head(ws) \o FlattenW(Tail(ws))
HashStream(s, lanes) == FlattenW(HashWrites(s, lanes))
IsPrefixOf(p, s) == Len(p) <= Len(s) /\ SubSeq(s, 1, Len(p)) = p

\* HTTP header name -> CGI variable: HTTP_ + upper case with '-' replaced by '_'
HeaderVar(h) == << 72, 84, 84, 80, 95 >> \o [i \in 1..Len(h) |-> IF h[i] = 45 THEN 95 ELSE Up(h[i])]
=============================================================================
