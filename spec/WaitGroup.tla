------------------------------ MODULE WaitGroup ------------------------------
(***************************************************************************)
(* Runner::shutdown and the wait-group (src/async_io/util.rs): the future  *)
(* returned by shutdown completes when the last token of that runner has   *)
(* been dropped.  Instruction-atomic: a poll of the future is three steps  *)
(*   upgrade the Weak (None -> Ready)  ;  register the waker  ;            *)
(*   drop the temporary strong reference (may be the last -> wake)         *)
(* interleaved with token drops on other threads at every point.           *)
(***************************************************************************)
EXTENDS Naturals, Sequences, FiniteSets, TLC

CONSTANTS NTok,        \* tokens alive when shutdown is requested
          MaxPolls     \* bound on the number of polls in one recorded behaviour; 0 = do not record histories
                       \* (unbounded polling, finite state space: used for the liveness check)

VARIABLES ntok,        \* live tokens
          runner,      \* the Runner still holds its own reference (until shutdown() returns)
          fut,         \* "none" | "pending" | "done"
          pc,          \* "idle" | "upgraded" | "registered": where the poller is inside poll()
          reg,         \* a waker is registered in the wait-group
          wake,        \* the future's task has been woken since the last poll began
          polled,      \* the future has been polled at least once
          whist
wvars == <<ntok, runner, fut, pc, reg, wake, polled, whist>>

Temp == pc \in {"upgraded", "registered"}
Strong == ntok + (IF runner THEN 1 ELSE 0) + (IF Temp THEN 1 ELSE 0)

WInit == ntok = NTok /\ runner = TRUE /\ fut = "none" /\ pc = "idle" /\ reg = FALSE /\ wake = FALSE /\ polled = FALSE /\ whist = <<>>

Polls == Cardinality({ i \in 1..Len(whist) : whist[i] \in {"up", "up-ready"} })
Rec(h, e) == IF MaxPolls = 0 THEN h ELSE Append(h, e)

\* the last strong reference goes away: WaitGroupInner::drop wakes the registered waker (and takes it)
LastGone(strongAfter) == strongAfter = 0

DropToken ==
  /\ ntok > 0
  /\ ntok' = ntok - 1
  /\ IF LastGone(Strong - 1) /\ reg THEN wake' = TRUE /\ reg' = FALSE ELSE UNCHANGED <<wake, reg>>
  /\ whist' = Rec(whist, "dropt")
  /\ UNCHANGED <<runner, fut, pc, polled>>

Shutdown ==
  /\ fut = "none" /\ runner
  /\ fut' = "pending" /\ runner' = FALSE
  /\ whist' = Rec(whist, "shutdown")
  /\ UNCHANGED <<ntok, pc, reg, wake, polled>>       \* no waker can be registered yet

PollUpgrade ==
  /\ fut = "pending" /\ pc = "idle" /\ (MaxPolls = 0 \/ Polls < MaxPolls)
  /\ wake' = FALSE /\ polled' = TRUE
  /\ IF Strong = 0 THEN fut' = "done" /\ pc' = "idle" /\ whist' = Rec(whist, "up-ready")
     ELSE fut' = fut /\ pc' = "upgraded" /\ whist' = Rec(whist, "up")
  /\ UNCHANGED <<ntok, runner, reg>>

PollRegister ==
  /\ pc = "upgraded" /\ pc' = "registered" /\ reg' = TRUE
  /\ whist' = Rec(whist, "reg")
  /\ UNCHANGED <<ntok, runner, fut, wake, polled>>

PollDropTemp ==
  /\ pc = "registered" /\ pc' = "idle"
  /\ IF LastGone(Strong - 1) /\ reg THEN wake' = TRUE /\ reg' = FALSE ELSE UNCHANGED <<wake, reg>>
  /\ whist' = Rec(whist, "droptemp")
  /\ UNCHANGED <<ntok, runner, fut, polled>>

WNext == DropToken \/ Shutdown \/ PollUpgrade \/ PollRegister \/ PollDropTemp

\* ------------------------------------------------------------------ properties (C14)
ShutdownNotEarly == fut = "done" => ntok = 0
\* once every token is gone, a pending shutdown future that has been polled has been woken
ShutdownWoken == (fut = "pending" /\ pc = "idle" /\ polled /\ Strong = 0) => wake
\* liveness: with a poller that polls when woken, the future completes
Fair == WF_wvars(DropToken) /\ WF_wvars(PollUpgrade) /\ WF_wvars(PollRegister) /\ WF_wvars(PollDropTemp) /\ WF_wvars(Shutdown)
Completes == <>(fut = "done")
=============================================================================
