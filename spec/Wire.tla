-------------------------------- MODULE Wire --------------------------------
(***************************************************************************)
(* The abstract wire: what both parsers can observe of a FastCGI byte      *)
(* stream.  A byte is identified by its absolute offset; the specification *)
(* never looks at payload bytes, only at                                   *)
(*   - the eight header fields of each record,                             *)
(*   - the BeginRequest body (role, flags),                                *)
(*   - the token structure of Params streams (where the 1/4-byte length    *)
(*     prefixes, names and values of the pairs lie) and of GetValues       *)
(*     bodies (where each pair ends, which protocol variable it names).    *)
(*                                                                         *)
(* A wire is a record                                                      *)
(*   recs  : sequence of records, contiguous from offset 0                 *)
(*   len   : number of bytes on the wire (the last record may be cut)      *)
(*   pairs : per session (k-th BeginRequest the request parser accepts)    *)
(*           the tokenisation of that session's Params stream              *)
(* The same description is produced by MkWire below for model-checking     *)
(* menus and by the harness' lexer for arbitrary bytes fed to the code.    *)
(***************************************************************************)
EXTENDS Naturals, Sequences, FiniteSets, Codec

\* record: all fields always present so that records are uniform
\*   off   absolute offset of the header
\*   ver   version byte (1 = the only known version)
\*   ty    type byte 0..255          id  request id
\*   clen, plen   content / padding length announced by the header
\*   role, flags  BeginRequest body (meaningful when ty = 1, clen = 8)
\*   gv    GetValues body tokenisation: sequence of [e |-> end offset of the
\*         pair relative to the body start, var |-> 0 | 1 | 2 | 4]; complete
\*         pairs only, in order (a trailing incomplete pair is not listed)
Rec(off, ver, ty, id, clen, plen, role, flags, gv) ==
  [off |-> off, ver |-> ver, ty |-> ty, id |-> id, clen |-> clen, plen |-> plen,
   role |-> role, flags |-> flags, gv |-> gv]

RecEnd(r) == r.off + 8 + r.clen + r.plen
BodyOff(r) == r.off + 8
PadOff(r) == r.off + 8 + r.clen

\* pair of a Params stream:
\*   s     offset of the pair's first byte in the session's Params stream
\*   nEnc, vEnc   1 or 4: bytes of the name / value length prefix
\*   n, v  announced name / value length (clamped to 10^9 by the lexer)
\*   key   identity of the normalised name (lossy UTF-8, ASCII upper case)
\* A trailing incomplete pair is listed too (the stream simply ends before
\* PairEnd); it can never complete.
HeadLen(p) == p.nEnc + p.vEnc
H1(p) == IF p.nEnc = 4 THEN 5 ELSE 2          \* name length + first byte of value length
H2(p) == H1(p) + (IF p.vEnc = 4 THEN 3 ELSE 0)  \* = HeadLen(p)
PairEnd(p) == p.s + HeadLen(p) + p.n + p.v
PairSize(p) == HeadLen(p) + p.n + p.v

\* ------------------------------------------------------------------------
\* Construction of wires for model-checking menus.
\* An item describes one record without its offset:
\*   [ver, ty, id, clen, plen, role, flags, gvs]  (gvs: sequence of [size, var])
Item(ver, ty, id, clen, plen, role, flags, gvs) ==
  [ver |-> ver, ty |-> ty, id |-> id, clen |-> clen, plen |-> plen, role |-> role, flags |-> flags, gvs |-> gvs]

IBegin(id, role, flags, plen) == Item(1, TBegin, id, 8, plen, role, flags, <<>>)
IParams(id, clen, plen)       == Item(1, TParams, id, clen, plen, 0, 0, <<>>)
IStream(ty, id, clen, plen)   == Item(1, ty, id, clen, plen, 0, 0, <<>>)
IAbort(id, clen, plen)        == Item(1, TAbort, id, clen, plen, 0, 0, <<>>)
IRaw(ver, ty, id, clen, plen) == Item(ver, ty, id, clen, plen, 0, 0, <<>>)
\* GetValues with the listed pairs [size, var] followed by `extra` bytes of an incomplete pair
IGetValues(id, gvs, extra, plen) ==
  LET RECURSIVE Sum(_)
      Sum(s) == IF s = <<>> THEN 0 ELSE Head(s).size + Sum(Tail(s))
  IN Item(1, TGetValues, id, Sum(gvs) + extra, plen, 0, 0, gvs)

RECURSIVE GvEnds(_, _)
GvEnds(gvs, acc) ==
  IF gvs = <<>> THEN <<>>
  ELSE << [e |-> acc + Head(gvs).size, var |-> Head(gvs).var] >> \o GvEnds(Tail(gvs), acc + Head(gvs).size)

RECURSIVE PlaceItems(_, _)
PlaceItems(items, off) ==
  IF items = <<>> THEN <<>>
  ELSE LET it == Head(items)
           r == Rec(off, it.ver, it.ty, it.id, it.clen, it.plen, it.role, it.flags, GvEnds(it.gvs, 0))
       IN << r >> \o PlaceItems(Tail(items), RecEnd(r))

\* pair specs [nEnc, vEnc, n, v, key] -> pairs with stream offsets
RECURSIVE PlacePairs(_, _)
PlacePairs(ps, s) ==
  IF ps = <<>> THEN <<>>
  ELSE LET p == [s |-> s, nEnc |-> Head(ps).nEnc, vEnc |-> Head(ps).vEnc, n |-> Head(ps).n, v |-> Head(ps).v, key |-> Head(ps).key]
       IN << p >> \o PlacePairs(Tail(ps), PairEnd(p))

PSpec(nEnc, n, vEnc, v, key) == [nEnc |-> nEnc, vEnc |-> vEnc, n |-> n, v |-> v, key |-> key]

StreamLen(pairs) == IF pairs = <<>> THEN 0 ELSE PairEnd(pairs[Len(pairs)])

\* cut = number of bytes removed from the end of the wire (truncation)
MkWire(items, pairLists, cut) ==
  LET recs == PlaceItems(items, 0)
      full == IF recs = <<>> THEN 0 ELSE RecEnd(recs[Len(recs)])
  IN [recs |-> recs, len |-> full - cut,
      pairs |-> [i \in 1..Len(pairLists) |-> PlacePairs(pairLists[i], 0)]]

\* Cuts a Params payload of P bytes into records at the (sorted) offsets in cs;
\* paddings are taken cyclically from pads.
RECURSIVE ParamsItems(_, _, _, _, _)
ParamsItems(id, P, cs, pads, k) ==
  \* cs: sequence of strictly increasing cut offsets in 1..P-1; emits records for [prev, next)
  LET pad == pads[((k - 1) % Len(pads)) + 1]
  IN IF cs = <<>> THEN << IParams(id, P, pad) >>
     ELSE << IParams(id, Head(cs), pad) >>
          \o ParamsItems(id, P - Head(cs), [i \in 1..Len(cs) - 1 |-> cs[i + 1] - Head(cs)], pads, k + 1)

=============================================================================
