------------------------------- MODULE Writer -------------------------------
(***************************************************************************)
(* Output side of a request (src/async_io/mod.rs 62-139, 473-494,          *)
(* util.rs RepeatableLockFuture): several StreamWriter tasks and the       *)
(* request's own reply flushing share one transport through one mutex.     *)
(* A task is polled until it returns Pending (mutex busy, transport not    *)
(* ready) or finishes; any task may be polled at any time.  One action =   *)
(* one mutex attempt or one transport call of the task being polled.       *)
(*                                                                         *)
(* Task programs: sequence of ops                                          *)
(*   [op |-> "write", n]  write_all of n bytes: records of at most 65535   *)
(*   [op |-> "flush"]     poll_flush                                       *)
(*   [op |-> "reply", n]  poll_output of n reply bytes (the Request's own  *)
(*                        producer; keeps the lock across Pending)         *)
(***************************************************************************)
EXTENDS Codec, Integers, TLC

CONSTANTS NT,         \* number of tasks
          MaxCuts, MaxPend

VARIABLES tasks,      \* t -> [prog, ip, phase, rem, total, done (bytes of the op already handed over)]
          holder,     \* 0 = mutex free, else the task holding it
          running,    \* 0 = no task is being polled, else the task inside poll()
          out,        \* sequence of [t, rec, total, len]: records in the order their first byte was accepted
          used,       \* [cuts, pends]
          hist
wvars == <<tasks, holder, running, out, used, hist>>

RecLen(n) == 8 + n + PadFor(n)
MaxRec == 65535

\* phases: "idle" (between ops) | "lock" (needs the mutex) | "io" (holds the mutex, rem bytes of the current
\* record / reply buffer to go) | "flush" (holds the mutex, flush to do) | "end"
CurOp(t) == tasks[t].prog[tasks[t].ip]
Finished(t) == tasks[t].ip > Len(tasks[t].prog)

\* the record (or reply block) the task writes next
NextChunk(t) ==
  LET op == CurOp(t) IN
  IF op.op = "write" THEN RecLen(Min2(op.n - tasks[t].done, MaxRec)) ELSE IF op.op = "reply" THEN op.n ELSE 0

\* ------------------------------------------------------------------ steps of the task being polled
\* start the next op: an empty write returns at once without taking the lock (poll_write on an empty buffer)
Begin(t) ==
  /\ running = t /\ tasks[t].phase = "idle" /\ ~Finished(t)
  /\ LET op == CurOp(t) IN
     IF op.op = "write" /\ op.n = 0
     THEN tasks' = [tasks EXCEPT ![t].ip = tasks[t].ip + 1]
     ELSE tasks' = [tasks EXCEPT ![t].phase = "lock"]
  /\ UNCHANGED <<holder, running, out, used, hist>>

\* the poll returns because the task's program is complete
Finish(t) ==
  /\ running = t /\ tasks[t].phase = "idle" /\ Finished(t)
  /\ running' = 0 /\ hist' = Append(hist, << "done", t >>)
  /\ UNCHANGED <<tasks, holder, out, used>>

LockOk(t) ==
  /\ running = t /\ tasks[t].phase = "lock" /\ holder = 0
  /\ holder' = t
  /\ tasks' = [tasks EXCEPT ![t].phase = IF CurOp(t).op = "flush" THEN "flush" ELSE "io",
                            ![t].rem = NextChunk(t), ![t].total = NextChunk(t)]
  /\ UNCHANGED <<running, out, used, hist>>

LockBusy(t) ==
  /\ running = t /\ tasks[t].phase = "lock" /\ holder # 0
  /\ running' = 0 /\ hist' = Append(hist, << "busy", t >>)
  /\ UNCHANGED <<tasks, holder, out, used>>

\* amounts the transport may accept: up to every structural boundary of the record image
\* (inside the header, header/payload seam, inside the payload, payload/padding seam, inside the padding)
CutChoices(t) ==
  LET tk == tasks[t]
      op == CurOp(t)
      n == IF op.op = "write" THEN Min2(op.n - tk.done, MaxRec) ELSE tk.total
      at == tk.total - tk.rem
      P == IF op.op = "write" THEN {1, 4, 7, 8, 9, 8 + n - 1, 8 + n, 8 + n + 1, tk.total - 1} ELSE {1, 8, 15, 16, 17, tk.total - 1}
  IN { p - at : p \in { q \in P : q > at /\ q <= tk.total } } \cup {tk.rem}

\* the transport accepts k bytes of the current record / reply block
Accept(t, k) ==
  LET tk == tasks[t]
      first == tk.rem = tk.total
      out1 == IF first THEN Append(out, [t |-> t, rec |-> tk.ip, total |-> tk.total, len |-> k])
              ELSE [out EXCEPT ![Len(out)].len = out[Len(out)].len + k]
      complete == k = tk.rem
      op == CurOp(t)
      payload == IF op.op = "write" THEN Min2(op.n - tk.done, MaxRec) ELSE op.n
      opDone == complete /\ (op.op = "reply" \/ tk.done + payload = op.n)
  IN /\ out' = out1
     /\ holder' = IF complete THEN 0 ELSE holder
     /\ tasks' = [tasks EXCEPT ![t].rem = tk.rem - k,
                               ![t].phase = IF ~complete THEN "io" ELSE IF opDone THEN "idle" ELSE "lock",
                               ![t].done = IF ~complete THEN tk.done ELSE IF opDone THEN 0 ELSE tk.done + payload,
                               ![t].ip = IF opDone THEN tk.ip + 1 ELSE tk.ip]

Write(t) ==
  /\ running = t /\ tasks[t].phase = "io"
  /\ \E k \in (IF used.cuts >= MaxCuts THEN {tasks[t].rem} ELSE CutChoices(t)) :
       /\ Accept(t, k)
       /\ used' = [used EXCEPT !.cuts = IF k < tasks[t].rem THEN used.cuts + 1 ELSE used.cuts]
       /\ hist' = Append(hist, << "w", t, k >>)
  /\ UNCHANGED running

RECURSIVE OutBytesW(_)
OutBytesW(o) == IF o = <<>> THEN 0 ELSE Head(o).len + OutBytesW(Tail(o))
\* the transport is not ready (at most once per outbound offset): the poll returns Pending, the lock stays with the task
WritePending(t) ==
  /\ running = t /\ tasks[t].phase = "io" /\ used.pends < MaxPend /\ OutBytesW(out) \notin used.pat
  /\ running' = 0 /\ used' = [used EXCEPT !.pends = used.pends + 1, !.pat = used.pat \cup {OutBytesW(out)}]
  /\ hist' = Append(hist, << "wp", t >>)
  /\ UNCHANGED <<tasks, holder, out>>

Flush(t) ==
  /\ running = t /\ tasks[t].phase = "flush"
  /\ holder' = 0 /\ tasks' = [tasks EXCEPT ![t].phase = "idle", ![t].ip = tasks[t].ip + 1]
  /\ UNCHANGED <<running, out, used, hist>>

\* any runnable unfinished task may be polled when no poll is in progress
Poll(t) ==
  /\ running = 0 /\ ~(Finished(t) /\ tasks[t].phase = "idle" /\ \E i \in 1..Len(hist) : hist[i] = << "done", t >>)
  /\ (tasks[t].phase = "lock" => holder = 0)      \* a task waiting for the mutex is polled again once it was released (woken)
  /\ running' = t /\ hist' = Append(hist, << "poll", t >>)
  /\ UNCHANGED <<tasks, holder, out, used>>

WNext == \E t \in 1..NT : Poll(t) \/ Begin(t) \/ Finish(t) \/ LockOk(t) \/ LockBusy(t) \/ Write(t) \/ WritePending(t) \/ Flush(t)

\* ------------------------------------------------------------------ properties (C10)
\* no two records interleave: every record but the one in progress is complete
NoInterleave == \A i \in 1..(Len(out) - 1) : out[i].len = out[i].total
\* a partly written record's task holds the mutex, and only one record is ever in progress
LockHeldWhileWriting ==
  /\ (out # <<>> /\ out[Len(out)].len < out[Len(out)].total) => holder = out[Len(out)].t
  /\ \A t \in 1..NT : tasks[t].phase \in {"io", "flush"} => holder = t
\* per writer, records appear in program order
PerWriterOrder ==
  \A i, j \in 1..Len(out) : (i < j /\ out[i].t = out[j].t) => out[i].rec <= out[j].rec
=============================================================================
