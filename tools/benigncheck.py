#!/usr/bin/env python3
"""benigncheck.py <name> <worktree> [checks...]
Control against false alarms: a behaviour-preserving change produced by a sub-agent (refactoring / optimisation of
an implementation detail the properties do not pin down).  Confirms it compiles and passes the existing tests in a
scratch worktree, stores it under /verif/benign/<name>/, applies it to /repo, runs the given checks (default: all
twenty quick checks) and undoes it.  Every check must exit 0 without a VIOLATION line; DRIFT notes are expected."""
import json, os, shutil, subprocess, sys, time
name, wt = sys.argv[1], sys.argv[2]
ALL = ["C%02d" % i for i in range(1, 21)]
checks = sys.argv[3:] or ALL
out = os.path.join("/verif/benign", name)
os.makedirs(out, exist_ok=True)
def run(cmd, cwd=None, timeout=1800):
    r = subprocess.run(cmd, shell=True, cwd=cwd, stdout=subprocess.PIPE, stderr=subprocess.STDOUT, text=True, timeout=timeout)
    return r.returncode, r.stdout
src = os.path.join(wt, "OUT")
patch = os.path.join(src, "patch.diff")
meta = {"name": name}
if os.path.exists(patch):
    shutil.copy(patch, os.path.join(out, "patch.diff"))
    notes = os.path.join(src, "notes.md")
    if os.path.exists(notes):
        shutil.copy(notes, os.path.join(out, "notes.md"))
    scratch = "/var/tmp/verif-benigncheck-%s" % name
    run("git -C /repo worktree remove --force %s" % scratch)
    rc, o = run("git -C /repo worktree add -q %s HEAD" % scratch)
    assert rc == 0, o
    try:
        rc, o = run("git apply %s" % patch, cwd=scratch)
        assert rc == 0, "patch does not apply: " + o
        rc1, o1 = run("cargo test --offline --workspace 2>&1 | grep -E '^test result|FAILED|^error' | head -5", cwd=scratch)
        rc2, o2 = run("cargo test --offline --features async,http 2>&1 | grep -E '^test result|FAILED|^error' | head -5", cwd=scratch)
        meta["existing_tests_with_change"] = {"default": o1.strip().splitlines()[:2], "async_http": o2.strip().splitlines()[:2]}
        import re
        def passed(o, least):   # the change may add tests of its own; none may fail
            m = re.search(r"test result: ok\. (\d+) passed; 0 failed", o)
            return bool(m) and int(m.group(1)) >= least and "FAILED" not in o
        meta["confirmed"] = passed(o1, 68) and passed(o2, 82)
    finally:
        run("git -C /repo worktree remove --force %s" % scratch)
        shutil.rmtree(scratch, ignore_errors=True)
else:
    old = json.load(open(os.path.join(out, "meta.json")))
    meta["existing_tests_with_change"] = old.get("existing_tests_with_change")
    meta["confirmed"] = old.get("confirmed")
    for k in ("verdict", "review"):
        if k in old:
            meta[k] = old[k]
det = {}
rc, o = run("git -C /repo status --short | grep -v '^??' | head -3")
assert o.strip() == "", "/repo has local edits: " + o
rc, o = run("git -C /repo apply %s" % os.path.join(out, "patch.diff"))
assert rc == 0, o
try:
    for c in checks:
        t = time.time()
        rc, o = run("./check %s --tier quick" % c, cwd="/verif", timeout=1500)
        viol = [l for l in o.splitlines() if l.startswith("VIOLATION")]
        what = [l.strip()[:300] for l in o.splitlines() if l.strip().startswith("what:")][:2]
        drift = [l.strip()[:200] for l in o.splitlines() if "DRIFT" in l][:2]
        det[c] = {"exit": rc, "violations": len(viol), "first": what, "drift": drift, "wall_s": round(time.time() - t, 1)}
        print("  %s %s exit=%d violations=%d %s" % (name, c, rc, len(viol), what[:1]), flush=True)
finally:
    run("git -C /repo checkout -- .")
meta["checks"] = det
meta["alarms"] = sorted(c for c, v in det.items() if v["exit"] != 0 or v["violations"])
json.dump(meta, open(os.path.join(out, "meta.json"), "w"), indent=1)
print("%s confirmed=%s alarms=%s" % (name, meta.get("confirmed"), meta["alarms"]))
