"""Shared machinery of /verif/check: build the harness, run TLC, pipe TLC's
emitted cases into the harness, validate recorded traces with TLC, write
evidence.  See /verif/DESIGN.md sections 5 and 9.

Exit codes of a check: 0 = property held on everything explored (possibly
with KNOWN-FINDING / DRIFT lines), 1 = at least one VIOLATION line was
printed, 2 = tool error (TLC failure, timeout, malformed output, build error).
"""
import json
import os
import re
import shutil
import subprocess
import sys
import time

VERIF = os.path.dirname(os.path.dirname(os.path.abspath(__file__)))
SPEC = os.path.join(VERIF, "spec")
OUT = os.path.join(VERIF, "out")
HARNESS_DIR = os.path.join(VERIF, "harness")
HARNESS = os.path.join(HARNESS_DIR, "target", "release", "fcgi-verif")
EVIDENCE = os.path.join(VERIF, "evidence")
KNOWN = os.path.join(VERIF, "KNOWN_FINDINGS")
NCPU = os.cpu_count() or 4


class ToolError(Exception):
    pass


def log(msg):
    print(msg, flush=True)


def build_harness():
    """Rebuilds the harness (and with it the crate from /repo's working tree,
    hooks enabled through harness/.cargo/config.toml)."""
    lock = os.path.join(HARNESS_DIR, "Cargo.lock")
    if not os.path.exists(lock):
        shutil.copy("/repo/Cargo.lock", lock)
    env = dict(os.environ, CARGO_NET_OFFLINE="true")
    t = time.time()
    r = subprocess.run(["cargo", "build", "--release", "--offline"], cwd=HARNESS_DIR, env=env,
                       stdout=subprocess.PIPE, stderr=subprocess.STDOUT, text=True)
    if r.returncode != 0:
        sys.stdout.write(r.stdout[-6000:])
        raise ToolError("building the harness against /repo failed")
    return time.time() - t


TLC_JAR_CP = "/opt/veriftools/tla/tla2tools.jar:/opt/veriftools/tla/CommunityModules-deps.jar"


def tlc_cmd(module, cfg, metadir, workers, extra=(), simulate=None, deque=False, heap="8g", coverage=False):
    jopts = ["-XX:+UseParallelGC", "-Xss1g", "-Xmx" + heap]
    if deque:
        jopts.append("-Dtlc2.tool.queue.IStateQueue=StateDeque")
    cmd = ["java"] + jopts + ["-cp", TLC_JAR_CP, "tlc2.TLC"]
    if simulate:
        cmd += ["-simulate", simulate]
    cmd += ["-workers", str(workers), "-metadir", metadir, "-cleanup", "-noGenerateSpecTE"]
    if coverage:
        cmd += ["-coverage", "1"]
    cmd += list(extra)
    cmd += ["-config", cfg, module]
    return cmd


STAT_RE = re.compile(r"(\d+) states generated, (\d+) distinct states found, (\d+) states left on queue")


def parse_tlc_log(text):
    """Extracts verdict and statistics from TLC's non-vector output."""
    res = {"ok": False, "generated": 0, "distinct": 0, "error": None, "depth": None, "coverage": {}}
    m = None
    for m in STAT_RE.finditer(text):
        pass
    if m:
        res["generated"] = int(m.group(1))
        res["distinct"] = int(m.group(2))
    d = re.search(r"The depth of the complete state graph search is (\d+)", text)
    if d:
        res["depth"] = int(d.group(1))
    if "Model checking completed. No error has been found." in text or "Finished computing" in text and "Error:" not in text:
        res["ok"] = "Error:" not in text
    if "Error:" in text:
        i = text.index("Error:")
        res["error"] = text[i:i + 3000]
        res["ok"] = False
    # per-action coverage lines look like: <Action line 1, col 1 to line 2, col 3 of module M>: 12:34
    for cm in re.finditer(r"^<(\w+) line \d+, col \d+ to line \d+, col \d+ of module (\w+)>: (\d+):(\d+)", text, re.M):
        res["coverage"][cm.group(2) + "!" + cm.group(1)] = [int(cm.group(3)), int(cm.group(4))]
    return res


def run_tlc_piped(name, module, cfg, harness_args, workers=None, timeout=1800, simulate=None,
                  heap="8g", coverage=False, extra=()):
    """Runs TLC on spec/<module>.tla with spec/<cfg>, pipes its stdout into the
    harness subcommand `harness_args`, returns (tlc stats, harness result)."""
    workers = workers or max(2, NCPU // 2)
    wd = os.path.join(OUT, name)
    shutil.rmtree(wd, ignore_errors=True)
    os.makedirs(wd, exist_ok=True)
    if "\n" in cfg:  # configuration given as text: generated per run
        cfg = write_cfg(name, module + ".cfg", cfg)
    tlclog = os.path.join(wd, "tlc.log")
    result = os.path.join(wd, "result.json")
    cmd = tlc_cmd(module + ".tla", cfg, os.path.join(wd, "meta"), workers, simulate=simulate, heap=heap,
                  coverage=coverage, extra=extra)
    t = time.time()
    tlc = subprocess.Popen(cmd, cwd=SPEC, stdout=subprocess.PIPE, stderr=subprocess.STDOUT)
    har = subprocess.Popen([HARNESS] + harness_args + ["--log", tlclog, "--out", result],
                           stdin=tlc.stdout, stdout=subprocess.PIPE, stderr=subprocess.STDOUT, text=True)
    tlc.stdout.close()
    try:
        hout, _ = har.communicate(timeout=timeout)
        tlc.wait(timeout=60)
    except subprocess.TimeoutExpired:
        tlc.kill()
        har.kill()
        raise ToolError("%s: TLC/harness pipeline exceeded %ds" % (name, timeout))
    wall = time.time() - t
    sys.stdout.write(hout)
    text = open(tlclog, errors="replace").read() if os.path.exists(tlclog) else ""
    stats = parse_tlc_log(text)
    stats["wall_s"] = round(wall, 2)
    stats["cmd"] = " ".join(cmd[cmd.index("tlc2.TLC"):]).replace("tlc2.TLC", "tlc")
    if har.returncode not in (0, 1):
        raise ToolError("%s: harness exited with %s" % (name, har.returncode))
    if not os.path.exists(result):
        raise ToolError("%s: harness wrote no result" % name)
    hres = json.load(open(result))
    if not stats["ok"]:
        sys.stdout.write(text[-4000:])
        raise ToolError("%s: TLC did not complete cleanly on %s/%s (a specification-level error is a defect of the "
                        "machinery unless reproduced on the code): %s" % (name, module, cfg, (stats["error"] or "")[:600]))
    shutil.rmtree(os.path.join(wd, "meta"), ignore_errors=True)
    return stats, hres


def run_tlc_only(name, module, cfg, workers=4, timeout=600, heap="4g"):
    """Runs TLC on spec/<module>.tla without a harness (specification-level checks); returns stats."""
    wd = os.path.join(OUT, name)
    shutil.rmtree(wd, ignore_errors=True)
    os.makedirs(wd, exist_ok=True)
    if "\n" in cfg:
        cfg = write_cfg(name, module + ".cfg", cfg)
    cmd = tlc_cmd(module + ".tla", cfg, os.path.join(wd, "meta"), workers, heap=heap)
    t = time.time()
    try:
        r = subprocess.run(cmd, cwd=SPEC, stdout=subprocess.PIPE, stderr=subprocess.STDOUT, text=True, timeout=timeout)
    except subprocess.TimeoutExpired:
        raise ToolError("%s: TLC exceeded %ds" % (name, timeout))
    stats = parse_tlc_log(r.stdout)
    stats["wall_s"] = round(time.time() - t, 2)
    stats["cmd"] = " ".join(cmd[cmd.index("tlc2.TLC"):]).replace("tlc2.TLC", "tlc")
    shutil.rmtree(os.path.join(wd, "meta"), ignore_errors=True)
    if not stats["ok"]:
        sys.stdout.write(r.stdout[-3000:])
        raise ToolError("%s: TLC did not complete cleanly on %s: %s" % (name, module, (stats["error"] or "")[:600]))
    return stats


def run_apalache(name, module, invs, cinit="CInit", length=0, timeout=600):
    """Symbolic check of state invariants of spec/<module>.tla with Apalache (specification-level: the outcome says
    something about the specification's own laws, never about the code).  Returns one record per invariant;
    a violated invariant or a tool failure is a ToolError (the specification is wrong, not the code)."""
    exe = shutil.which("apalache-mc")
    if not exe:
        return [{"inv": i if isinstance(i, str) else i[0], "outcome": "skipped: apalache-mc not on PATH"} for i in invs]
    wd = os.path.join(OUT, name)
    shutil.rmtree(wd, ignore_errors=True)
    os.makedirs(wd, exist_ok=True)
    res = []
    for item in invs:
        inv, init, length = (item, None, length) if isinstance(item, str) else item
        cmd = [exe, "check", "--cinit=" + cinit] + (["--init=" + init] if init else []) + \
              ["--inv=" + inv, "--length=%d" % length, "--out-dir=" + os.path.join(wd, "apa"), os.path.join(SPEC, module + ".tla")]
        t = time.time()
        try:
            r = subprocess.run(cmd, cwd=wd, stdout=subprocess.PIPE, stderr=subprocess.STDOUT, text=True, timeout=timeout)
        except subprocess.TimeoutExpired:
            raise ToolError("%s: apalache-mc exceeded %ds on %s" % (name, timeout, inv))
        ok = "The outcome is: NoError" in r.stdout and r.returncode == 0
        if not ok:
            sys.stdout.write(r.stdout[-2500:])
            raise ToolError("%s: Apalache does not confirm %s of %s (a specification-level failure)" % (name, inv, module))
        res.append({"inv": inv, "outcome": "NoError", "wall_s": round(time.time() - t, 1),
                    "cmd": "apalache-mc check --cinit=%s%s --inv=%s --length=%d %s.tla" % (cinit, " --init=" + init if init else "", inv, length, module)})
        shutil.rmtree(os.path.join(wd, "apa"), ignore_errors=True)
    return res


def run_harness(name, harness_args, timeout=3600, stdin_path=None):
    wd = os.path.join(OUT, name)
    os.makedirs(wd, exist_ok=True)
    result = os.path.join(wd, "result.json")
    if os.path.exists(result):
        os.remove(result)
    t = time.time()
    try:
        r = subprocess.run([HARNESS] + harness_args + ["--out", result], stdout=subprocess.PIPE, stderr=subprocess.STDOUT,
                           text=True, timeout=timeout, stdin=open(stdin_path) if stdin_path else subprocess.DEVNULL)
    except subprocess.TimeoutExpired:
        raise ToolError("%s: harness exceeded %ds" % (name, timeout))
    sys.stdout.write(r.stdout)
    if r.returncode not in (0, 1) or not os.path.exists(result):
        raise ToolError("%s: harness exited with %s" % (name, r.returncode))
    hres = json.load(open(result))
    hres["wall_s"] = round(time.time() - t, 2)
    return hres


def run_trace_validation(name, module, cfg, trace_path, timeout=1800, heap="4g", env_extra=None):
    """Validates an ndjson trace recorded from the real code against spec/<module>.tla.
    Returns stats with ok/accepted; a rejection is reported by the caller."""
    wd = os.path.join(OUT, name)
    os.makedirs(wd, exist_ok=True)
    cmd = tlc_cmd(module + ".tla", cfg, os.path.join(wd, "meta-trace"), 1, deque=True, heap=heap)
    env = dict(os.environ, TRACE=trace_path)
    if env_extra:
        env.update(env_extra)
    t = time.time()
    try:
        r = subprocess.run(cmd, cwd=SPEC, env=env, stdout=subprocess.PIPE, stderr=subprocess.STDOUT, text=True, timeout=timeout)
    except subprocess.TimeoutExpired:
        raise ToolError("%s: trace validation exceeded %ds" % (name, timeout))
    text = r.stdout
    open(os.path.join(wd, "trace-tlc.log"), "w").write(text)
    stats = parse_tlc_log(text)
    stats["wall_s"] = round(time.time() - t, 2)
    stats["cmd"] = "TRACE=%s " % trace_path + " ".join(cmd[cmd.index("tlc2.TLC"):]).replace("tlc2.TLC", "tlc")
    stats["rejected"] = [l for l in text.splitlines() if "REJECTED" in l]
    stats["text_tail"] = text[-3000:]
    shutil.rmtree(os.path.join(wd, "meta-trace"), ignore_errors=True)
    return stats


def write_cfg(name, fname, text):
    """Writes a generated TLC configuration under out/<name>/ and returns its absolute path."""
    wd = os.path.join(OUT, name)
    os.makedirs(wd, exist_ok=True)
    path = os.path.join(wd, fname)
    with open(path, "w") as f:
        f.write(text)
    return path


def tla_set(xs):
    return "{" + ", ".join('"%s"' % x for x in xs) + "}"


def split_runs(trace_path):
    """Splits an ndjson trace into runs (each starting with a reset event); returns list of (first_line_no, lines)."""
    runs = []
    cur = None
    with open(trace_path) as f:
        for i, line in enumerate(f, 1):
            if not line.strip():
                continue
            if '"e":"reset"' in line[:200] or line.startswith('{"B"') and '"e":"reset"' in line:
                cur = [i, []]
                runs.append(cur)
            if cur is None:
                cur = [i, []]
                runs.append(cur)
            cur[1].append(line)
    return runs


def validate_trace(ev, prop, name, module, cfg_text, trace_path, src, max_reject=3, timeout=1800, heap="8g"):
    """Validates a recorded trace against spec/<module>.tla.  Every rejected run is reported as a VIOLATION
    (with a replay file holding the run and how to regenerate it), removed, and the rest is validated again."""
    cfg = write_cfg(name, module + ".cfg", cfg_text)
    total_events = 0
    rejected = 0
    path = trace_path
    while True:
        stats = run_trace_validation(name, module, cfg, path, timeout=timeout, heap=heap)
        if stats["rejected"] or not stats["ok"]:
            m = re.search(r'"REJECTED at event",\s*(\d+)', stats["text_tail"]) or re.search(r'"REJECTED at event",\s*(\d+)', open(os.path.join(OUT, name, "trace-tlc.log")).read())
            if not m:
                sys.stdout.write(stats["text_tail"])
                raise ToolError("%s: trace validation failed without a rejection report" % name)
            d = int(m.group(1))
            runs = split_runs(path)
            # run containing event d (events are numbered by non-empty line)
            n = 0
            hit = None
            for idx, (first, lines) in enumerate(runs):
                if n < d <= n + len(lines):
                    hit = idx
                    break
                n += len(lines)
            if hit is None:
                raise ToolError("%s: rejected event %d not found in trace" % (name, d))
            lines = runs[hit][1]
            k = d - n  # 1-based index inside the run
            rejected += 1
            os.makedirs(os.path.join(OUT, "replays"), exist_ok=True)
            rp = os.path.join(OUT, "replays", "%s-trace-%s-%d.json" % (prop, name, d))
            evt = json.loads(lines[k - 1])
            evt.pop("wire", None)
            reset = json.loads(lines[0])
            doc = {"property": prop, "what": "trace recorded from the code is not a behaviour of %s: event %d of the run is rejected" % (module, k),
                   "replay": {"kind": "trace", "module": module, "cfg": cfg_text, "src": dict(src, run=reset.get("src")), "rejected_event": evt,
                              "run": [json.loads(x) for x in lines[:k]] if sum(len(x) for x in lines[:k]) < 2000000 else "too large; regenerate from src"}}
            with open(rp, "w") as f:
                json.dump(doc, f)
            print("VIOLATION property=%s replay=%s" % (prop, rp))
            print("  what: %s rejects event %d of a recorded run: %s" % (module, k, json.dumps(evt)[:400]))
            ev.violations += 1
            if rejected >= max_reject:
                break
            # drop the rejected run and validate the rest
            rest = os.path.join(OUT, name, "trace-rest-%d.ndjson" % rejected)
            with open(rest, "w") as f:
                for idx, (first, ls) in enumerate(runs):
                    if idx != hit:
                        f.writelines(ls)
            path = rest
            continue
        total_events += max(stats.get("distinct", 1) - 1, 0)
        ev.add_tlc("trace validation %s" % module, stats)
        break
    return total_events, rejected


# ------------------------------------------------------------------ known findings

def load_known(prop):
    """Lines of /verif/KNOWN_FINDINGS: `finding: property=<id> key=<key> <text>` suppress exactly the
    violation with that key; `fixed: ...` lines suppress nothing."""
    out = {}
    if os.path.exists(KNOWN):
        for line in open(KNOWN):
            line = line.strip()
            m = re.match(r"finding:\s+property=(\S+)\s+key=(\S+)\s+(.*)", line)
            if m and m.group(1) == prop:
                out[m.group(2)] = m.group(3)
    return out


# ------------------------------------------------------------------ evidence

class Evidence:
    def __init__(self, prop, tier, seed):
        self.prop = prop
        self.tier = tier
        self.seed = seed
        self.t0 = time.time()
        self.states = 0
        self.transitions = 0
        self.traces = 0
        self.evaluations = 0
        self.nontrivial = 0
        self.samples = []
        self.violations = 0
        self.drifts = 0
        self.stages = []
        self.assumptions = []
        self.rule = ""
        self.exhaustive = None
        self.extra = {}

    def add_tlc(self, label, stats):
        self.states += stats.get("distinct", 0)
        self.transitions += stats.get("generated", 0)
        self.stages.append({"stage": label, "tlc": {k: stats.get(k) for k in ("cmd", "generated", "distinct", "depth", "wall_s")},
                            "coverage": stats.get("coverage") or None})

    def add_harness(self, label, hres, as_traces=True):
        self.evaluations += hres.get("evaluations", 0)
        self.nontrivial += hres.get("distinct_nontrivial", 0)
        if as_traces:
            self.traces += hres.get("evaluations", 0)
        self.violations += len(hres.get("violations", []))
        self.drifts += hres.get("drifts", 0)
        for s in hres.get("samples", [])[:6]:
            if len(self.samples) < 12:
                self.samples.append(s)
        self.stages.append({"stage": label, "harness": {k: hres.get(k) for k in ("evaluations", "distinct", "distinct_nontrivial", "kinds", "drifts", "extra", "wall_s")},
                            "violations": hres.get("violations", [])})

    def write(self):
        os.makedirs(EVIDENCE, exist_ok=True)
        cov = {
            "states": max(self.states, 0),
            "transitions": max(self.transitions, 0),
            "traces_validated_against_impl": self.traces,
            "samples": self.samples or [{"note": "no sample produced"}],
            "evaluations": self.evaluations,
            "distinct_nontrivial": self.nontrivial,
            "rule": self.rule,
            "conformance_exact": self.drifts == 0,
            "stages": self.stages,
        }
        if self.exhaustive is not None:
            cov["exhaustive"] = self.exhaustive
        cov.update(self.extra)
        doc = {
            "property_id": self.prop,
            "tier": self.tier,
            "seed": self.seed,
            "level": "model_checking",
            "coverage": cov,
            "assumptions": self.assumptions,
            "wall_s": round(time.time() - self.t0, 2),
            "violations": self.violations,
        }
        path = os.path.join(EVIDENCE, self.prop + ".json")
        with open(path, "w") as f:
            json.dump(doc, f, indent=1)
        return path
