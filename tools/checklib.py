"""Shared machinery of /verif/check: build the harness, run TLC, pipe TLC's
emitted cases into the harness, validate recorded traces with TLC, write
evidence.  See /verif/DESIGN.md sections 5 and 9.

Exit codes of a check: 0 = property held on everything explored (possibly
with KNOWN-FINDING / DRIFT lines), 1 = at least one VIOLATION line was
printed, 2 = tool error (TLC failure, timeout, malformed output, build error).
"""
import json
import os
import re
import shutil
import subprocess
import sys
import time

VERIF = os.path.dirname(os.path.dirname(os.path.abspath(__file__)))
SPEC = os.path.join(VERIF, "spec")
OUT = os.path.join(VERIF, "out")
HARNESS_DIR = os.path.join(VERIF, "harness")
HARNESS = os.path.join(HARNESS_DIR, "target", "release", "fcgi-verif")
EVIDENCE = os.path.join(VERIF, "evidence")
KNOWN = os.path.join(VERIF, "KNOWN_FINDINGS")
NCPU = os.cpu_count() or 4


class ToolError(Exception):
    pass


def log(msg):
    print(msg, flush=True)


def build_harness():
    """Rebuilds the harness (and with it the crate from /repo's working tree,
    hooks enabled through harness/.cargo/config.toml)."""
    lock = os.path.join(HARNESS_DIR, "Cargo.lock")
    if not os.path.exists(lock):
        shutil.copy("/repo/Cargo.lock", lock)
    env = dict(os.environ, CARGO_NET_OFFLINE="true")
    t = time.time()
    r = subprocess.run(["cargo", "build", "--release", "--offline"], cwd=HARNESS_DIR, env=env,
                       stdout=subprocess.PIPE, stderr=subprocess.STDOUT, text=True)
    if r.returncode != 0:
        sys.stdout.write(r.stdout[-6000:])
        raise ToolError("building the harness against /repo failed")
    return time.time() - t


TLC_JAR_CP = "/opt/veriftools/tla/tla2tools.jar:/opt/veriftools/tla/CommunityModules-deps.jar"


def tlc_cmd(module, cfg, metadir, workers, extra=(), simulate=None, deque=False, heap="8g", coverage=False):
    jopts = ["-XX:+UseParallelGC", "-Xss1g", "-Xmx" + heap]
    if deque:
        jopts.append("-Dtlc2.tool.queue.IStateQueue=StateDeque")
    cmd = ["java"] + jopts + ["-cp", TLC_JAR_CP, "tlc2.TLC"]
    if simulate:
        cmd += ["-simulate", simulate]
    cmd += ["-workers", str(workers), "-metadir", metadir, "-cleanup", "-noGenerateSpecTE"]
    if coverage:
        cmd += ["-coverage", "1"]
    cmd += list(extra)
    cmd += ["-config", cfg, module]
    return cmd


STAT_RE = re.compile(r"(\d+) states generated, (\d+) distinct states found, (\d+) states left on queue")


def parse_tlc_log(text):
    """Extracts verdict and statistics from TLC's non-vector output."""
    res = {"ok": False, "generated": 0, "distinct": 0, "error": None, "depth": None, "coverage": {}}
    m = None
    for m in STAT_RE.finditer(text):
        pass
    if m:
        res["generated"] = int(m.group(1))
        res["distinct"] = int(m.group(2))
    d = re.search(r"The depth of the complete state graph search is (\d+)", text)
    if d:
        res["depth"] = int(d.group(1))
    if "Model checking completed. No error has been found." in text or "Finished computing" in text and "Error:" not in text:
        res["ok"] = "Error:" not in text
    if "Error:" in text:
        i = text.index("Error:")
        res["error"] = text[i:i + 3000]
        res["ok"] = False
    # per-action coverage lines look like: <Action line 1, col 1 to line 2, col 3 of module M>: 12:34
    for cm in re.finditer(r"^<(\w+) line \d+, col \d+ to line \d+, col \d+ of module (\w+)>: (\d+):(\d+)", text, re.M):
        res["coverage"][cm.group(2) + "!" + cm.group(1)] = [int(cm.group(3)), int(cm.group(4))]
    return res


def run_tlc_piped(name, module, cfg, harness_args, workers=None, timeout=1800, simulate=None,
                  heap="8g", coverage=False, extra=()):
    """Runs TLC on spec/<module>.tla with spec/<cfg>, pipes its stdout into the
    harness subcommand `harness_args`, returns (tlc stats, harness result)."""
    workers = workers or max(2, NCPU // 2)
    wd = os.path.join(OUT, name)
    shutil.rmtree(wd, ignore_errors=True)
    os.makedirs(wd, exist_ok=True)
    tlclog = os.path.join(wd, "tlc.log")
    result = os.path.join(wd, "result.json")
    cmd = tlc_cmd(module + ".tla", cfg, os.path.join(wd, "meta"), workers, simulate=simulate, heap=heap,
                  coverage=coverage, extra=extra)
    t = time.time()
    tlc = subprocess.Popen(cmd, cwd=SPEC, stdout=subprocess.PIPE, stderr=subprocess.STDOUT)
    har = subprocess.Popen([HARNESS] + harness_args + ["--log", tlclog, "--out", result],
                           stdin=tlc.stdout, stdout=subprocess.PIPE, stderr=subprocess.STDOUT, text=True)
    tlc.stdout.close()
    try:
        hout, _ = har.communicate(timeout=timeout)
        tlc.wait(timeout=60)
    except subprocess.TimeoutExpired:
        tlc.kill()
        har.kill()
        raise ToolError("%s: TLC/harness pipeline exceeded %ds" % (name, timeout))
    wall = time.time() - t
    sys.stdout.write(hout)
    text = open(tlclog, errors="replace").read() if os.path.exists(tlclog) else ""
    stats = parse_tlc_log(text)
    stats["wall_s"] = round(wall, 2)
    stats["cmd"] = " ".join(cmd[cmd.index("tlc2.TLC"):]).replace("tlc2.TLC", "tlc")
    if har.returncode not in (0, 1):
        raise ToolError("%s: harness exited with %s" % (name, har.returncode))
    if not os.path.exists(result):
        raise ToolError("%s: harness wrote no result" % name)
    hres = json.load(open(result))
    if not stats["ok"]:
        sys.stdout.write(text[-4000:])
        raise ToolError("%s: TLC did not complete cleanly on %s/%s (a specification-level error is a defect of the "
                        "machinery unless reproduced on the code): %s" % (name, module, cfg, (stats["error"] or "")[:600]))
    shutil.rmtree(os.path.join(wd, "meta"), ignore_errors=True)
    return stats, hres


def run_harness(name, harness_args, timeout=3600, stdin_path=None):
    wd = os.path.join(OUT, name)
    os.makedirs(wd, exist_ok=True)
    result = os.path.join(wd, "result.json")
    if os.path.exists(result):
        os.remove(result)
    t = time.time()
    try:
        r = subprocess.run([HARNESS] + harness_args + ["--out", result], stdout=subprocess.PIPE, stderr=subprocess.STDOUT,
                           text=True, timeout=timeout, stdin=open(stdin_path) if stdin_path else subprocess.DEVNULL)
    except subprocess.TimeoutExpired:
        raise ToolError("%s: harness exceeded %ds" % (name, timeout))
    sys.stdout.write(r.stdout)
    if r.returncode not in (0, 1) or not os.path.exists(result):
        raise ToolError("%s: harness exited with %s" % (name, r.returncode))
    hres = json.load(open(result))
    hres["wall_s"] = round(time.time() - t, 2)
    return hres


def run_trace_validation(name, module, cfg, trace_path, timeout=1800, heap="4g", env_extra=None):
    """Validates an ndjson trace recorded from the real code against spec/<module>.tla.
    Returns stats with ok/accepted; a rejection is reported by the caller."""
    wd = os.path.join(OUT, name)
    os.makedirs(wd, exist_ok=True)
    cmd = tlc_cmd(module + ".tla", cfg, os.path.join(wd, "meta-trace"), 1, deque=True, heap=heap)
    env = dict(os.environ, TRACE=trace_path)
    if env_extra:
        env.update(env_extra)
    t = time.time()
    try:
        r = subprocess.run(cmd, cwd=SPEC, env=env, stdout=subprocess.PIPE, stderr=subprocess.STDOUT, text=True, timeout=timeout)
    except subprocess.TimeoutExpired:
        raise ToolError("%s: trace validation exceeded %ds" % (name, timeout))
    text = r.stdout
    open(os.path.join(wd, "trace-tlc.log"), "w").write(text)
    stats = parse_tlc_log(text)
    stats["wall_s"] = round(time.time() - t, 2)
    stats["cmd"] = "TRACE=%s " % trace_path + " ".join(cmd[cmd.index("tlc2.TLC"):]).replace("tlc2.TLC", "tlc")
    stats["rejected"] = [l for l in text.splitlines() if "REJECTED" in l]
    stats["text_tail"] = text[-3000:]
    shutil.rmtree(os.path.join(wd, "meta-trace"), ignore_errors=True)
    return stats


# ------------------------------------------------------------------ known findings

def load_known(prop):
    """Lines of /verif/KNOWN_FINDINGS: `finding: property=<id> key=<key> <text>` suppress exactly the
    violation with that key; `fixed: ...` lines suppress nothing."""
    out = {}
    if os.path.exists(KNOWN):
        for line in open(KNOWN):
            line = line.strip()
            m = re.match(r"finding:\s+property=(\S+)\s+key=(\S+)\s+(.*)", line)
            if m and m.group(1) == prop:
                out[m.group(2)] = m.group(3)
    return out


# ------------------------------------------------------------------ evidence

class Evidence:
    def __init__(self, prop, tier, seed):
        self.prop = prop
        self.tier = tier
        self.seed = seed
        self.t0 = time.time()
        self.states = 0
        self.transitions = 0
        self.traces = 0
        self.evaluations = 0
        self.nontrivial = 0
        self.samples = []
        self.violations = 0
        self.drifts = 0
        self.stages = []
        self.assumptions = []
        self.rule = ""
        self.exhaustive = None
        self.extra = {}

    def add_tlc(self, label, stats):
        self.states += stats.get("distinct", 0)
        self.transitions += stats.get("generated", 0)
        self.stages.append({"stage": label, "tlc": {k: stats.get(k) for k in ("cmd", "generated", "distinct", "depth", "wall_s")},
                            "coverage": stats.get("coverage") or None})

    def add_harness(self, label, hres, as_traces=True):
        self.evaluations += hres.get("evaluations", 0)
        self.nontrivial += hres.get("distinct_nontrivial", 0)
        if as_traces:
            self.traces += hres.get("evaluations", 0)
        self.violations += len(hres.get("violations", []))
        self.drifts += hres.get("drifts", 0)
        for s in hres.get("samples", [])[:6]:
            if len(self.samples) < 12:
                self.samples.append(s)
        self.stages.append({"stage": label, "harness": {k: hres.get(k) for k in ("evaluations", "distinct", "distinct_nontrivial", "kinds", "drifts", "extra", "wall_s")},
                            "violations": hres.get("violations", [])})

    def write(self):
        os.makedirs(EVIDENCE, exist_ok=True)
        cov = {
            "states": max(self.states, 0),
            "transitions": max(self.transitions, 0),
            "traces_validated_against_impl": self.traces,
            "samples": self.samples or [{"note": "no sample produced"}],
            "evaluations": self.evaluations,
            "distinct_nontrivial": self.nontrivial,
            "rule": self.rule,
            "conformance_exact": self.drifts == 0,
            "stages": self.stages,
        }
        if self.exhaustive is not None:
            cov["exhaustive"] = self.exhaustive
        cov.update(self.extra)
        doc = {
            "property_id": self.prop,
            "tier": self.tier,
            "seed": self.seed,
            "level": "model_checking",
            "coverage": cov,
            "assumptions": self.assumptions,
            "wall_s": round(time.time() - self.t0, 2),
            "violations": self.violations,
        }
        path = os.path.join(EVIDENCE, self.prop + ".json")
        with open(path, "w") as f:
            json.dump(doc, f, indent=1)
        return path
