#!/usr/bin/env python3
"""Regenerates the measured-cost table of DESIGN.md (between the COST markers) from /verif/evidence/*.json."""
import glob, json, os, re
V = os.path.dirname(os.path.dirname(os.path.abspath(__file__)))
rows = []
for f in sorted(glob.glob(os.path.join(V, "evidence", "C*.json"))):
    e = json.load(open(f))
    c = e["coverage"]
    stages = c.get("stages", [])
    tlc = [s["tlc"]["cmd"].split("-config")[0].strip()[-0:] for s in stages if "tlc" in s]
    mods = sorted(set(re.findall(r"(MC_\w+|Trace_\w+)\.tla", " ".join(s["tlc"]["cmd"] for s in stages if "tlc" in s))))
    rows.append("| %s | %s | %s | %s / %s | %s | %s | %s | %.0f s |" % (
        e["property_id"], e["tier"], ", ".join(mods), "{:,}".format(c["states"]), "{:,}".format(c["transitions"]),
        "{:,}".format(c["traces_validated_against_impl"]), "{:,}".format(c.get("trace_events_validated", 0)),
        "yes" if c.get("conformance_exact") else "DRIFT", e["wall_s"]))
table = ("| id | tier | TLC modules | distinct states / transitions | cases, edges, behaviours or runs executed on the code | trace events validated | conformance exact | wall |\n"
         "|---|---|---|---|---|---|---|---|\n" + "\n".join(rows))
p = os.path.join(V, "DESIGN.md")
s = open(p).read()
block = "<!-- COST:BEGIN -->\n" + table + "\n<!-- COST:END -->"
if "<!-- COST:BEGIN -->" in s:
    s = re.sub(r"<!-- COST:BEGIN -->.*?<!-- COST:END -->", lambda _: block, s, flags=re.S)
else:
    s = s.replace("### 13.6 Seeded changes", "### 13.5 Measured cost of one run of every check (from the evidence files of the commit)\n\n" + block + "\n\n### 13.6 Seeded changes")
open(p, "w").write(s)
print(len(rows), "rows")
