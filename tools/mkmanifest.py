#!/usr/bin/env python3
"""Regenerates /verif/MANIFEST.json from the table below (kept in one place so
that the manifest stays valid and current whenever a check is added)."""
import json, os
V = os.path.dirname(os.path.dirname(os.path.abspath(__file__)))

CLAIMED = {
 "C15": dict(technique="TLA+ codec spec (Codec.tla) checked by TLC; every case replayed on the code as a vector; exhaustive 2^32 sweep against the vector-validated mirror; the spec's own laws additionally checked over the whole domain by Apalache (AP_VarInt.tla, bridged to Codec.tla by TLC)",
   text="Codec.tla states the encoding as operators; TLC checks round trip, length rule, exact consumption, truncation failure and conversion range on the case family and emits each case as a vector that the harness replays on VarInt::{read,write,try_from}. Because the domain is finite, the thorough tier additionally decides it outright: all 2^31 values and all 2^32 conversion inputs against a mirror of the two operators that must first agree with every TLC vector.",
   note="trusted: TLC, the 12-line Rust mirror after validation against the vectors, serde_json; 32-bit TLC integers force u32 inputs to be split in halves", ref="6 C15"),
 "C16": dict(technique="TLA+ codec spec (DecNVAll/EncNV) checked by TLC on all short byte strings over a boundary alphabet; vectors replayed on NVIter/nv::write with pointer-range comparison",
   text="TLC enumerates every byte string up to length 5 over the boundary alphabet and pair lists with lengths around the 1/4-byte switch, checks consecutive-sub-slice, stop-at-first-incomplete, prefix-monotonicity and round-trip laws on the specification and emits expected pairs as offsets into the input; the harness checks the real iterator's slices by pointer (zero-copy), the mutable variant, the size hint and the encoder's byte count.",
   note="model scale only for lengths (<=129); 65535+ lengths and 2^31 announcements are exercised through the parser traces of C01/C03", ref="6 C16"),
 "C17": dict(technique="TLA+ codec spec (headers, bodies, GetValuesResult, epilogue) checked by TLC; vectors replayed on the public encode/decode functions; padding rule over all lengths by Apalache (AP_Rules.tla)",
   text="Each header field is enumerated exhaustively with the others sampled, BeginRequest over all roles and flag bytes, EndRequest over all status bytes, the padding rule over all content lengths, GetValuesResult over all subsets x decimal-length boundaries x pre-filled Vec/SmallVec targets, every exit status; laws are TLC invariants, expected bytes are replayed on the code.",
   note="trusted: TLC, vector transport; the epilogue byte sequence is observed through Request::close in the connection replays", ref="6 C17"),
}

CLAIMED.update({
 "C01": dict(technique="TLA+ spec of the request parser (ReqParser.tla) model-checked by TLC over wire menus x all call partitions; edge-cover replay on the real parser; trace validation of seeded large-size drivers (Trace_ReqParser)",
   text="ReqParser.tla transcribes every arm of the resumable parser over an abstract wire (offsets and token structure, never byte arrays); TLC explores every partition of each menu wire into parse(n) calls and checks PrefixDetermined (state = canonical byte-by-byte parse) and OutcomeExact against the declarative reference RefReq/RefEnv (last value wins). Every explored transition is executed on the real parser and compared (request triple, environment by three spellings, done flag); executions on realistic sizes (127/128/65535/70000-byte pairs, buffers 24..70016, 1-byte to buffer-filling reads) are recorded and must be behaviours of the spec.",
   note="trusted: TLC, the wire encoder/lexer (harness/src/wire.rs, ~300 lines), std's lossy UTF-8 + ASCII upper-casing as the name normaliser; ids and spellings sampled", ref="6 C01"),
 "C03": dict(technique="TLC on hostile wire menus with parse(0)/post-final calls and sticky-error action properties; replay on the code; trace validation of random and mutated byte strings under >=3 chunkings with all fields bound; panics caught",
   text="The hostile menu (bad versions, malformed BeginRequest, aborts, truncation at every offset) is explored exhaustively per call partition; chunking-invariance is the invariant PrefixDetermined, stickiness an action property. On the code, random and structurally mutated byte strings are run under at least three chunkings with catch_unwind, debug assertions and overflow checks; the lexer describes each byte string so that TLC validates every recorded call, and outcomes are additionally compared across chunkings.",
   note="request-parser half; the stream-parser half is added with StreamParser.tla. Announced lengths clamped to 10^9 in the model (32-bit TLC integers)", ref="6 C03"),
 "C04": dict(technique="TLC invariant RepliesExact (all replies so far = reference list by due offset) on reply menus x all partitions; replies compared as bytes in replays and as decoded descriptors in validated traces",
   text="Replies are first-class in the spec (kind, id, status / variable set). RepliesExact states that after any prefix the emitted replies are exactly those the reference prescribes, in order; TLC checks it for GetValues bodies split at every offset, unknown types, foreign/duplicate BeginRequest, unknown role and abort during Params at every record gap. The code's output bytes are compared with the encoder's for every explored transition, and decoded again in recorded traces.",
   note="request-parser half (stream parser replies are added with StreamParser.tla); interpretation of unknown-type ids and empty GetValues bodies as stated in DESIGN.md", ref="6 C04"),
 "C06": dict(technique="TLC invariants BoundSuffices / NeverFullUnlessStuck on the bound menu for B in {24,32,40}; edge-cover replay (input space offered, StuckOnInput); AlignedBuf checked in TLC, over the whole domain by Apalache (AP_Rules.tla), and swept on the code",
   text="For each B the critical pair (name+value B-14..B-1, both encodings) is placed behind a small pair and cut at every structurally distinct offset; TLC proves on the model that no StuckOnInput occurs up to B-13 and that an unfinished parser always offers space, and every transition is replayed on the code comparing 'offers space', the stuck error and that each modelled call is accepted. The size rule is a TLA+ operator checked for 0..4100 and swept on the code for every n<=70000 and around powers of two.",
   note="tight limit beyond B-13 is explored (menu goes to B-1) but only reported", ref="6 C06"),
})

CLAIMED.update({
 "C02": dict(technique="TLA+ spec of the stream parser (StreamParser.tla: four-index buffer + wire-interval content) model-checked over all caller schedules; edge-cover replay comparing bytes; chain traces validated by Trace_Parsers",
   text="The buffer is modelled by its four indices and by the identity of its content as wire intervals, so loss, duplication and reordering are visible at any size. TLC explores every interleaving of parse(n, dest) / consume_stream / compress / consume_output / set_stream on the record menu and checks DeliveredIsPrefix, EosExact, ContentMatchesGeometry and the code's own geometry assertions; every transition is executed on the real parser (delivered bytes, stream buffer, status fields). Drivers with 65535-byte records and 200 kB streams through 24-byte..8 KiB buffers are recorded and must be behaviours of the spec.",
   note="trusted: TLC, encoder/lexer, the locator that finds delivered bytes on the wire (next bytes of the active stream type and id)", ref="6 C02"),
 "C05": dict(technique="conversion results compared at the end of every replayed edge of both parser models; conversion chain (request->stream->request...) traced on the code and validated by Trace_Parsers with hand-off offsets bound",
   text="Every replayed transition of both models ends with the conversions on a clone of the real parser (leftover bytes equal the wire interval the spec predicts; the new parser's free space). Chains of 1..3 requests through one shared buffer, with callers that stop reading at arbitrary points, are recorded; the Trace spec re-creates each parser from the predecessor's state (RPInitAt / SPInit), so a lost, duplicated or shifted byte at any hand-off makes the next events unexplainable.",
   note="the hand-off offsets used to describe the bytes (lexer phases) come from the recorded run and are themselves bound by the to_input/to_request events", ref="6 C05"),
 "C18": dict(technique="TLC action properties StreamMonotone / RejectChangesNothing / ReselectKeepsBuffer and invariant DeliveredIsPrefix over all roles x selections x record orders; edge-cover replay; chain traces",
   text="The role x current x requested table is finite and reached exhaustively through set_stream in every state of the model on all 1-, 2- and selected 3-record sequences of stream records (every type, every order, own and foreign ids); the action properties state forward-only movement, that a rejected selection changes nothing and that re-selection keeps buffered data; replays compare set_stream's result, the active stream and the bytes delivered afterwards.",
   note="async set_stream's panic on rejection is covered with C09", ref="6 C18"),
})

CLAIMED.update({
 "C07": dict(technique="TLA+ spec of Token::run / Request (Conn.tla: one action per transport call, embedding the two parser specs) model-checked by TLC over scenario menus x transport schedules; every behaviour replayed on the real Token::run with a deterministic executor and offset-scheduled mock transports",
   text="Conn.tla follows the code await point by await point (parse_request, poll_input, poll_output, StreamWriter, close) with the parser operators of ReqParser/StreamParser inside; the environment chooses how many bytes each read returns and each write accepts. TLC checks OneHandlerPerRequest, EpilogueShape and ReuseIff and prints every behaviour; the harness runs the real Token::run under the same schedule (cuts and spurious Pending by byte offset, closed-loop peer, scripted handler) and compares handler invocations (request, environment, input bytes), the outbound byte stream and whether run() returned. Found the dropped keep-alive connection now recorded in KNOWN_FINDINGS (fixed).",
   note="single-task executor; transport nondeterminism bounded to MaxCuts partial transfers / MaxPend spurious Pending per behaviour at every offset; handler family is a menu", ref="6 C07"),
 "C08": dict(technique="TLC invariants NoOwedReplyWhileWaiting / NoWaitCycle on Conn.tla with a closed-loop peer that withholds records until it sees the reply; behaviours replayed on Token::run, predicate re-evaluated on the real byte logs",
   text="The peer script carries release conditions (gates): everything behind a management query is withheld until the reply has been observed in the bytes written. A suspension on a read with nothing released is exactly the state the property speaks about; TLC checks in every such state that the replies owed for the bytes read have been written, for every placement of the query and every split of reads and writes. Each behaviour is replayed on the real code, where the same predicate is evaluated on the mock transport's logs. With FixA/FixB = FALSE the model reproduces the two genuine defects that were repaired (KNOWN_FINDINGS).",
   note="mid-record suspensions cannot occur for the peers the property quantifies over (whole records arrive eventually) and are not modelled", ref="6 C08, 7"),
})

CLAIMED.update({
 "C09": dict(technique="TLC over Conn.tla with handler programs mixing direct/buffered reads, stream selection and writeable(); every returned value replayed and compared byte for byte on the real AsyncRead/AsyncBufRead impls",
   text="poll_input is modelled with its three exits (buffered data, flush, parse/read loop) on top of the stream-parser spec, whose invariants already state 'exactly the active stream, once, in order'; the connection model adds the handler-visible sequence: each read / fill_buf result as wire intervals, EOF persistence, set_stream discarding, the writeable flag after every operation. TLC enumerates the transport's behaviour, the harness replays each behaviour on the real Request and compares every returned value.",
   note="handler programs are a menu (6 programs x 2 roles); buffer sizes 24 and 32", ref="6 C09"),
 "C11": dict(technique="abort menus in all three models (ReqParser, StreamParser, Conn) checked by TLC and replayed on the code",
   text="Abort during Params is a row of the request-parser spec (one EndRequest RequestComplete, request discarded, Header mode) checked by RepliesExact/OutcomeExact; abort later is the held-header error of the stream-parser spec (ErrExact, ErrorSticky, DeliveredIsPrefix); the connection model turns it into the handler-visible ConnectionAborted error, the ABRT or handler-chosen status, one EndRequest, and the next request on the same connection. All three are replayed on the code.",
   note="as C07", ref="6 C11"),
 "C12": dict(technique="fault injection in Conn.tla (EOF at every inbound offset, read error, write error / zero-length write at every outbound offset), TLC enumerates, behaviours replayed on Token::run under catch_unwind with a poll budget",
   text="Each behaviour carries one fault at a byte offset; the specification says how the connection ends (which await point fails, what the handler sees, what has been written). The replay checks the same on the real code plus the property's own predicates: no panic, no spinning (bounded polls per transport event), nothing written after a failed write, handler invocations only for complete preambles.",
   note="fault by offset, one per behaviour; spinning is a poll budget of 32 polls per wire byte + 2000", ref="6 C12"),
})

CLAIMED.update({
 "C10": dict(technique="TLA+ spec of the output side (Writer.tla: writer tasks, reply flushing, one mutex, transport cuts/Pending) model-checked over all poll orders; behaviours replayed on real StreamWriters with byte comparison",
   text="Writer.tla has one action per mutex attempt and per transport call of the task being polled; the byte log is a list of record images with the number of bytes accepted so far, so NoInterleave ('every record but the last is complete') and LockHeldWhileWriting are state invariants over all poll orders, cut positions and Pending points. Each behaviour is replayed on StreamWriters handed out by a real Request (plus the Request's own reply flushing as fourth producer) and the bytes that reached the mock transport are compared with the specification's record images (type, id, length, padding, payload, order).",
   note="mutex fairness / wake-ups are not modelled (not part of the property); transport errors on the writer path are covered by C12", ref="6 C10"),
})

CLAIMED.update({
 "C13": dict(technique="TLA+ spec of the token semaphore (Runner.tla, call-atomic, dependency semantics transcribed) model-checked over all operation histories; edge-cover replay on the real Runner/Token with counting wakers; Server.tla (runner + clone + shutdown of either) for the shared limit; multi-thread stress as a supplement",
   text="Runner.tla models get_token as the async-lock acquire loop over an event-listener queue (listen, non-additional notify, propagation on drop) and checks TokenBound, NoStrandedSlot and ImmediateWhenFree over every history of create / poll / cancel / release for limits 1..3 on a runner and its clone. Every explored transition is executed on the real types and the poll results, the wake-ups of pending requests and the number of live tokens are compared.",
   note="thread interleavings inside async-lock / event-listener are not steerable from outside: covered by a stress run with an independent live-token counter, not by the model", ref="6 C13"),
 "C14": dict(technique="TLA+ spec of the wait-group at instruction granularity (WaitGroup.tla) with every interleaving forced onto the real code through the cfg-guarded scheduling-point hook; connection-side shutdown in Conn.tla replayed on Token::run; inductive invariant for any number of tokens by Apalache (AP_WaitGroup.tla, refined by WaitGroup.tla per TLC)",
   text="WaitGroup.tla splits a poll of the shutdown future into upgrade / register / drop-temporary and interleaves token drops at every point (in particular the last drop between the liveness check and the waker registration); TLC checks ShutdownNotEarly, ShutdownWoken and completion under fairness. The hook added to WaitGroupFuture::poll lets the harness execute exactly those interleavings on the real code. The connection side (no handler after a stop request, in-flight request completes, idle connection stops without reading) is part of Conn.tla with stop requests at every suspension.",
   note="hook commit b95836f (add-only, cfg fastcgi_server_verif)", ref="6 C14, 8"),
})

CLAIMED.update({
 "C19": dict(technique="TLA+ transcription of the name comparison / hashing rules (VarName.tla); laws decided by TLC on a small alphabet with LANES=2; vectors for LANES=16 replayed on VarName / OwnedVarName through every constructor with a recording hasher",
   text="Equality, order, hash feeding and the header-name mapping are operators over byte strings; TLC decides the algebraic laws (equivalence, total order, equal => identical hash writes, prefix-freeness, ASCII case only) exhaustively on short strings and produces expected results for interned and boundary-length names in all case patterns, which are replayed on the real types (all constructors, HashMap lookup, interning, From<&HeaderName>).",
   note="transcription + vector binding: the weakest use of the technique in this framework; hash write layout is compared for DRIFT only", ref="6 C19"),
 "C20": dict(technique="TLA+ transcription of the response grammar (Response.tla); cases enumerated by TLC over codes x header lists x every destination capacity; vectors replayed on the writers",
   text="The grammar is three operators; TLC enumerates status codes (thorough: all 100..999) with reason phrases supplied from the http crate, small header lists with empty / non-UTF-8 names and values, and every destination capacity from 0 to one more than needed, and emits expected bytes, count and failure, which the harness replays on write_headers, simple_redirect and http_headers.",
   note="pure function; the universally quantified claim is reached at the listed boundary sets", ref="6 C20"),
})

NOT_YET = {}

def main():
    props = [json.loads(l) for l in open(os.path.join(V, "properties.jsonl"))]
    checks = []
    na = []
    for p in props:
        pid = p["id"]
        if pid in CLAIMED:
            c = CLAIMED[pid]
            checks.append({
                "property_id": pid,
                "quick_cmd": "./check %s --tier quick" % pid,
                "thorough_cmd": "./check %s --tier thorough" % pid,
                "evidence_file": "/verif/evidence/%s.json" % pid,
                "replay_cmd_template": "./check replay {path}",
                "engine": "tlc+harness",
                "level_claimed": {"category": "model_checking", "text": c["text"], "design_ref": "DESIGN.md section " + c["ref"]},
                "level_note": c["note"],
                "technique": c["technique"],
            })
        else:
            na.append({"property_id": pid, "reason": NOT_YET.get(pid, "check not built yet in this round; the specification module for it is planned in DESIGN.md section 12 (no claim is made until the check exists)")})
    m = {
        "version": 1,
        "setup_cmd": "./check setup",
        "hooks": {
            "guard": "fastcgi_server_verif",
            "enable": "RUSTFLAGS --cfg fastcgi_server_verif (set in /verif/harness/.cargo/config.toml for every harness build)",
            "baseline_off_cmd": "cd /repo && cargo test --workspace --no-fail-fast --offline",
            "source_commits": HOOK_COMMITS,
            "add_only": True,
        },
        "engines": [{"name": "tlc+harness", "path": "/verif/check", "serves_properties": sorted(CLAIMED),
                     "kind_free_text": "explicit TLA+ specifications (/verif/spec) model-checked with TLC 1.8; bound to the Rust code by replaying TLC-emitted cases/behaviours on the real code and by validating traces recorded from the real code against Trace specs (harness: /verif/harness)"}],
        "checks": checks,
        "not_applicable": na,
        "notes": "See DESIGN.md. Exit 0 = held on everything explored, 1 = VIOLATION line printed, 2 = tool error.",
    }
    json.dump(m, open(os.path.join(V, "MANIFEST.json"), "w"), indent=1)

HOOK_COMMITS = ["b95836f"]
if __name__ == "__main__":
    main()
