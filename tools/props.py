"""Per-property check procedures (what `check <id>` runs).  Each procedure
fills an Evidence object; violations are printed by the harness as
`VIOLATION property=<id> replay=<path>` lines."""
import glob
import os
import subprocess

import checklib as cl
from checklib import ToolError, log

CHECKS = {}


def check(pid):
    def deco(f):
        CHECKS[pid] = f
        return f
    return deco


def sany_all():
    """setup: parse every specification module once."""
    bad = 0
    for f in sorted(glob.glob(os.path.join(cl.SPEC, "*.tla"))):
        r = subprocess.run(["java", "-cp", cl.TLC_JAR_CP, "tla2sany.SANY", os.path.basename(f)], cwd=cl.SPEC,
                           stdout=subprocess.PIPE, stderr=subprocess.STDOUT, text=True)
        ok = r.returncode == 0 and "*** Errors" not in r.stdout and "Fatal" not in r.stdout
        log("sany %-28s %s" % (os.path.basename(f), "ok" if ok else "FAILED"))
        if not ok:
            print(r.stdout[-2000:])
            bad += 1
    return 2 if bad else 0


# ---------------------------------------------------------------------------- C15
@check("C15")
def c15(ev, tier, seed):
    ev.rule = ("TLC enumerates the case family of MC_Codec15 (values 0..300, 2^k-1/2^k/2^k+1, all one-byte inputs, "
               "truncations, a boundary alphabet of four-byte inputs, u32 conversion inputs as 16-bit halves); every "
               "state is one case, checked against the laws in the spec and replayed on VarInt::{read,write,try_from}. "
               "The sweep then compares the code with a mirror of the spec's two operators (validated on every TLC "
               "vector) on all 2^32 u32 inputs (thorough) or 1/64 of the 2^16-blocks (quick). Non-trivial: value >= 1.")
    stats, h = cl.run_tlc_piped("C15-vectors", "MC_Codec15", "MC_Codec15.cfg", ["vectors", "--prop", "C15"])
    ev.add_tlc("MC_Codec15", stats)
    ev.add_harness("vectors replayed on the code", h)
    shift = "0" if tier == "thorough" else "6"
    hs = cl.run_harness("C15-sweep", ["sweep-varint", "--shift", shift, "--threads", str(cl.NCPU)])
    ev.add_harness("exhaustive sweep against the validated mirror", hs, as_traces=False)
    # specification-level, symbolic: the laws hold for EVERY value 0..2^31-1 and EVERY byte string of length <= 5 (Apalache on
    # AP_VarInt.tla, a sequence-free restatement that TLC checks against Codec.tla on the families above)
    bst = cl.run_tlc_only("C15-bridge", "MC_APVarInt", "MC_APVarInt.cfg")
    ev.add_tlc("MC_APVarInt (AP_VarInt restates Codec!EncVarInt / DecVarInt)", bst)
    invs = ["DecodeTotal", "Injective"] + (["RoundTrip"] if tier == "thorough" else [])
    ap = cl.run_apalache("C15-apalache", "AP_VarInt", invs)
    ev.stages.append({"stage": "Apalache: VarInt laws over the whole domain (specification level)", "apalache": ap})
    ev.exhaustive = tier == "thorough"
    ev.assumptions = ["TLC integers are 32-bit: u32 inputs above 2^31-1 are represented as two 16-bit halves",
                      "the Apalache stage proves laws of the specification's operators only; the code is bound to those operators by the vectors and the sweep",
                      "the Rust mirror of EncVarInt/DecVarInt is trusted only after it agreed with every TLC vector of this run"]


def ap_rules(ev, prop, invs):
    """specification-level, symbolic: arithmetic rules of Codec.tla over their whole domain (Apalache on AP_Rules.tla, which
    TLC checks against Codec!AlignedBuf / PadFor on 0..70000)."""
    bst = cl.run_tlc_only(prop + "-bridge", "MC_APRules", "MC_APRules.cfg")
    ev.add_tlc("MC_APRules (AP_Rules restates Codec!AlignedBuf / PadFor)", bst)
    ap = cl.run_apalache(prop + "-apalache", "AP_Rules", invs)
    ev.stages.append({"stage": "Apalache: %s over the whole domain (specification level)" % ", ".join(invs), "apalache": ap})


# ---------------------------------------------------------------------------- C16
@check("C16")
def c16(ev, tier, seed):
    ev.rule = ("MC_Codec16: every byte string of length <= 5 over {0,1,2,3,127,128,129,255} plus hostile announcements, and "
               "pair lists with lengths from {0,1,127,128,129}; each case carries the expected pairs as offsets into the "
               "input, the suffix offset and the size hint; laws (consecutive sub-slices, stop at first incomplete pair, "
               "prefix-monotone at cut points, round trip) are TLC invariants; the harness compares slice pointers "
               "(zero-copy), the mutable variant and nv::write. Non-trivial: non-empty input.")
    stats, h = cl.run_tlc_piped("C16-vectors", "MC_Codec16", "MC_Codec16.cfg", ["vectors", "--prop", "C16"])
    ev.add_tlc("MC_Codec16", stats)
    ev.add_harness("vectors replayed on the code", h)
    ev.exhaustive = False
    ev.assumptions = ["lengths of 65535 and above are covered by the parser trace checks, not by this model"]


# ---------------------------------------------------------------------------- C17
@check("C17")
def c17(ev, tier, seed):
    cfg = "MC_Codec17_full.cfg" if tier == "thorough" else "MC_Codec17.cfg"
    ev.rule = ("MC_Codec17: header decode on all (version,type) byte pairs (thorough: 2^16, quick: 256x20) and on field "
               "samples, header encode on 11 types x ids x lengths x paddings, the padding rule on all content lengths "
               "(thorough), BeginRequest on all 2^16 roles (thorough) and all flag bytes, EndRequest on all status bytes, "
               "UnknownType on all type bytes, every exit status, GetValuesResult for all 8 subsets x limits at every "
               "decimal-length boundary up to usize::MAX x pre-filled buffers x Vec/SmallVec. Every case is distinct.")
    stats, h = cl.run_tlc_piped("C17-vectors", "MC_Codec17", cfg, ["vectors", "--prop", "C17"], timeout=900)
    ev.add_tlc("MC_Codec17 (%s)" % cfg, stats)
    ev.add_harness("vectors replayed on the code", h)
    ap_rules(ev, "C17", ["PadLaws"])
    ev.exhaustive = False
    ev.assumptions = ["the end-of-request byte sequence is not public; its EndRequest part is compared here, the whole sequence "
                      "is observed through Request::close in the connection replays (C07)"]


# ---------------------------------------------------------------------------- request parser (C01 C03 C04 C06, part of C05)
RP_INVARIANTS = "Geometry NeverFullUnlessStuck PrefixDetermined RepliesExact OutcomeExact BoundSuffices"


def rp_cfg(B, menu, feed):
    return ("SPECIFICATION Spec\nCONSTANTS\n  B = %d\n  Menu = %s\n  Feed = \"%s\"\nVIEW View\nACTION_CONSTRAINT Emit\n"
            "INVARIANTS %s\nPROPERTIES StickyFatal DoneSticky\nCHECK_DEADLOCK FALSE\n" % (B, cl.tla_set(menu), feed, RP_INVARIANTS))


def rp_model(ev, prop, seed, label, B, menu, feed, timeout=1500):
    name = "%s-rp-%s" % (prop, label)
    cfg = rp_cfg(B, menu, feed)
    stats, h = cl.run_tlc_piped(name, "MC_ReqParser", cfg, ["rp-replay", "--prop", prop, "--seed", str(seed), "--threads", str(cl.NCPU)],
                                timeout=timeout, workers=max(4, cl.NCPU - 4))
    ev.add_tlc("MC_ReqParser B=%d menu=%s feed=%s" % (B, ",".join(menu), feed), stats)
    ev.add_harness("edge-cover replay on request::Parser (%s)" % label, h)


RP_BIND = {
    "C01": ["done", "conv", "req", "env"],
    "C03": ["done", "out", "conv", "room", "err", "req", "env", "left"],
    "C04": ["out"],
    "C05": ["left", "conv"],
    "C06": ["room", "err", "conv"],
}


def rp_traces(ev, prop, seed, scenarios, label="traces"):
    name = "%s-rp-%s" % (prop, label)
    wd = os.path.join(cl.OUT, name)
    os.makedirs(wd, exist_ok=True)
    trace = os.path.join(wd, "trace.ndjson")
    h = cl.run_harness(name, ["rp-trace", "--prop", prop, "--seed", str(seed), "--scenarios", str(scenarios), "--trace", trace])
    ev.add_harness("seeded drivers on request::Parser (recorded)", h, as_traces=False)
    cfg = "SPECIFICATION TraceSpec\nCONSTANT Bind = %s\nPOSTCONDITION Accepted\nCHECK_DEADLOCK FALSE\n" % cl.tla_set(RP_BIND[prop])
    events, rejected = cl.validate_trace(ev, prop, name, "Trace_Parsers", cfg, trace,
                                         {"cmd": "rp-trace", "prop": prop, "seed": seed, "scenarios": scenarios})
    runs = (h.get("extra") or {}).get("trace_runs", 0)
    ev.traces += runs
    ev.extra.setdefault("trace_events_validated", 0)
    ev.extra["trace_events_validated"] += events
    # exact configuration: implementation-shaped fields; a rejection is DRIFT, not a violation
    cfgx = "SPECIFICATION TraceSpec\nCONSTANT Bind = %s\nPOSTCONDITION Accepted\nCHECK_DEADLOCK FALSE\n" % cl.tla_set(RP_BIND[prop] + ["free"])
    if rejected == 0:
        st = cl.run_trace_validation(name + "-exact", "Trace_Parsers", cl.write_cfg(name + "-exact", "Trace_ReqParser.cfg", cfgx), trace)
        if st["rejected"] or not st["ok"]:
            print("DRIFT: request parser free-space accounting differs from the implementation-shaped model (%s)" % (st["rejected"][:1],))
            ev.drifts += 1
    os.remove(trace)


@check("C01")
def c01(ev, tier, seed):
    ev.rule = ("MC_ReqParser menu: well-formed preambles (3 roles x flags x paddings; 7 pair lists with 1- and 4-byte length "
               "prefixes, empty names/values, duplicate and case-variant keys, a non-UTF-8 name; every cut of the Params payload "
               "into <=4 records for one list, <=3 / <=2 for the others; one interleaved GetValues / unknown / foreign record at "
               "every gap) x every partition into parse(n) calls with n from the feed set. Invariants: PrefixDetermined "
               "(state equals the canonical byte-by-byte parse), OutcomeExact (request, last-wins environment, leftover equal the "
               "reference RefReq/RefEnv). Every transition is replayed on the real parser (edge cover); traces of seeded drivers "
               "with realistic and boundary sizes (127/128/65535/70000-byte pairs, buffers 24..70016) are validated by "
               "Trace_ReqParser. Non-trivial: a history that fed at least one byte / an input longer than 16 bytes.")
    feed = "all" if tier == "thorough" else "quick"
    rp_model(ev, "C01", seed, "b24", 24, ["cuts", "pad", "inter"], feed)
    if tier == "thorough":
        rp_model(ev, "C01", seed, "b32", 32, ["cuts", "pad", "inter"], "all")
    rp_traces(ev, "C01", seed, 2000 if tier == "thorough" else 150)
    ev.exhaustive = False
    ev.assumptions = ["request ids are sampled (the code only tests id == own and id == 0)",
                      "name normalisation (lossy UTF-8 + ASCII upper case) is computed with std and enters the model as the abstract key",
                      "the lexer (harness/src/wire.rs) describes recorded byte strings for the trace specification"]


@check("C03")
def c03(ev, tier, seed):
    ev.rule = ("Hostile menu of MC_ReqParser (bad versions, BeginRequest with wrong length / id 0 / unknown role, aborts, stale "
               "stream records, wire truncated at every offset) x every partition into calls incl. parse(0) and calls after "
               "done/fatal; StickyFatal/DoneSticky as action properties; plus seeded random and mutated byte strings under >= 3 "
               "chunkings each, traced and validated (all fields bound), panics caught. Stream parser part: see the second stage.")
    rp_model(ev, "C03", seed, "hostile", 24, ["hostile", "trunc", "inter"], "all")
    if tier == "thorough":
        rp_model(ev, "C03", seed, "hostile32", 32, ["hostile", "trunc", "inter", "bound"], "all")
    rp_traces(ev, "C03", seed, 4000 if tier == "thorough" else 300)
    # stream parser half: truncation at every offset, bad versions, aborts; every caller schedule
    sp_model(ev, "C03", seed, "trunc", 24, ["trunc"], "tiny" if tier == "quick" else "quick", [2], ops=("cs", "c", "ss") if tier == "quick" else ("cs", "c", "co", "ss"))
    chain_traces(ev, "C03", seed, 2000 if tier == "thorough" else 150)
    ev.exhaustive = False
    ev.assumptions = ["announced lengths above 10^9 are clamped by the lexer (TLC integers are 32-bit); no driver completes such a pair"]


@check("C04")
def c04(ev, tier, seed):
    ev.rule = ("Reply menu: GetValues bodies (known / unknown / repeated names, values, trailing partial pair, empty body, non-zero "
               "id), unknown types, foreign and duplicate BeginRequest, unknown role, AbortRequest during Params, at every record "
               "gap of a request, split across calls at every offset; RepliesExact compares all replies so far with the reference "
               "list (due offsets); replies are compared as bytes in the replay and as decoded descriptors in traces.")
    rp_model(ev, "C04", seed, "replies", 24, ["inter", "hostile"], "all")
    rp_traces(ev, "C04", seed, 2000 if tier == "thorough" else 200)
    # stream parser half: replies interleaved with consume_output(k)
    sp_model(ev, "C04", seed, "replies", 24, ["replies"], "tiny" if tier == "quick" else "quick", [2], ops=("co", "c", "ss"))
    # every ordered pair of adjacent reply-producing records (state left behind by one must not leak into the next)
    sp_model(ev, "C04", seed, "replies2", 24, ["replies2"], "tiny" if tier == "quick" else "quick", [2], ops=("co", "c") if tier == "quick" else ("co", "c", "ss"))
    # more reply bytes pending than one GetValuesResult is long, drained by partial consume_output(50|60) calls
    sp_model(ev, "C04", seed, "replies3", 24, ["replies3"], "max" if tier == "quick" else "tiny", [2], ops=("co", "c"))
    chain_traces(ev, "C04", seed, 1500 if tier == "thorough" else 100)
    ev.exhaustive = False
    ev.assumptions = ["an unknown-type record is answered with the record's own request id (what the code and its test do)",
                      "a GetValues record with an empty body or a non-zero id gets no reply"]


@check("C06")
def c06(ev, tier, seed):
    ev.rule = ("Bound menu: a pair of name+value size B-14..B-1 with both length encodings, placed after a small pair, payload cut at "
               "the start / inside each prefix / at the name-value seam / at the end; B in {24,32,40}; BoundSuffices (no StuckOnInput "
               "when every pair <= B-13) and NeverFullUnlessStuck in every state; the size rule AlignedBuf is checked by TLC for "
               "n in 0..4100 and on the code for every n <= 70000 and around powers of two up to 2^20.")
    for B in ([24, 32, 40] if tier == "thorough" else [24, 32]):
        rp_model(ev, "C06", seed, "bound%d" % B, B, ["bound"], "all" if tier == "thorough" or B == 24 else "quick")
    stats, h = cl.run_tlc_piped("C06-abuf", "MC_Codec06", "MC_Codec06.cfg", ["vectors", "--prop", "C06"])
    ev.add_tlc("MC_Codec06 (AlignedBuf)", stats)
    ev.add_harness("buffer-size vectors on Parser::new", h)
    ap_rules(ev, "C06", ["BufLaws"])
    hs = cl.run_harness("C06-bufsweep", ["sweep-bufsize", "--max", "1048600" if tier == "thorough" else "70000"])
    ev.add_harness("buffer-size sweep against the vector-validated rule", hs, as_traces=False)
    rp_traces(ev, "C06", seed, 1500 if tier == "thorough" else 200)
    ev.exhaustive = False
    ev.assumptions = ["buffer sizes near usize::MAX are not allocatable and outside the stated range"]


# ---------------------------------------------------------------------------- stream parser (C02 C18, halves of C03 C04, C05)
SP_INVARIANTS = "Geometry ContentMatchesGeometry DeliveredIsPrefix EosExact ErrExact RepliesExact OutputAccounting ErrorSticky"


def sp_cfg(B, menu, feed, dests, emit=True, ops=("cs", "c", "co", "ss")):
    return ("SPECIFICATION Spec\nCONSTANTS\n  B = %d\n  Menu = %s\n  Feed = \"%s\"\n  Dests = {%s}\n  ND = 1\n  Ops = %s\nVIEW View\n%s"
            "INVARIANTS %s\nPROPERTIES StreamMonotone RejectChangesNothing ReselectKeepsBuffer\nCHECK_DEADLOCK FALSE\n"
            % (B, cl.tla_set(menu), feed, ", ".join(str(d) for d in dests), cl.tla_set(ops), "ACTION_CONSTRAINT Emit\n" if emit else "", SP_INVARIANTS))


def sp_model(ev, prop, seed, label, B, menu, feed, dests, timeout=2400, ops=("cs", "c", "co", "ss")):
    name = "%s-sp-%s" % (prop, label)
    stats, h = cl.run_tlc_piped(name, "MC_StreamParser", sp_cfg(B, menu, feed, dests, ops=ops),
                                ["sp-replay", "--prop", prop, "--seed", str(seed), "--threads", str(cl.NCPU)],
                                timeout=timeout, workers=max(4, cl.NCPU - 4), heap="16g")
    ev.add_tlc("MC_StreamParser B=%d menu=%s feed=%s dests=%s" % (B, ",".join(menu), feed, dests), stats)
    ev.add_harness("edge-cover replay on stream::Parser (%s)" % label, h)


CHAIN_BIND = {
    "C02": ["got", "sbuf", "count", "end", "active"],
    "C03": ["done", "out", "conv", "room", "err", "req", "env", "left", "active", "sbuf", "olen", "boundary", "count", "end", "outcount", "got", "setstream"],
    "C04": ["out", "outcount", "olen"],
    "C05": ["left", "conv", "boundary", "req", "env", "got", "sbuf"],
    "C11": ["err", "out", "conv", "done", "req", "got", "sbuf"],
    "C18": ["active", "setstream", "got", "sbuf", "end"],
}


def chain_traces(ev, prop, seed, scenarios, label="chain"):
    # large counts are recorded and validated in batches (a 3000-chain log is 1.2 GB of JSON, which makes TLC thrash)
    if scenarios > 400:
        done = 0
        i = 0
        while done < scenarios:
            n = min(400, scenarios - done)
            chain_traces(ev, prop, seed + 7919 * i, n, label="%s-%d" % (label, i))
            done += n
            i += 1
        return
    name = "%s-%s" % (prop, label)
    wd = os.path.join(cl.OUT, name)
    os.makedirs(wd, exist_ok=True)
    trace = os.path.join(wd, "trace.ndjson")
    h = cl.run_harness(name, ["sp-trace", "--prop", prop, "--seed", str(seed), "--scenarios", str(scenarios), "--trace", trace])
    ev.add_harness("seeded drivers over the parser chain request -> stream -> request (recorded)", h, as_traces=False)
    cfg = "SPECIFICATION TraceSpec\nCONSTANT Bind = %s\nPOSTCONDITION Accepted\nCHECK_DEADLOCK FALSE\n" % cl.tla_set(CHAIN_BIND[prop])
    events, rejected = cl.validate_trace(ev, prop, name, "Trace_Parsers", cfg, trace,
                                         {"cmd": "sp-trace", "prop": prop, "seed": seed, "scenarios": scenarios})
    ev.traces += (h.get("extra") or {}).get("trace_runs", 0)
    ev.extra.setdefault("trace_events_validated", 0)
    ev.extra["trace_events_validated"] += events
    if rejected == 0:
        cfgx = "SPECIFICATION TraceSpec\nCONSTANT Bind = %s\nPOSTCONDITION Accepted\nCHECK_DEADLOCK FALSE\n" % cl.tla_set(CHAIN_BIND[prop] + ["free"])
        st = cl.run_trace_validation(name + "-exact", "Trace_Parsers", cl.write_cfg(name + "-exact", "Trace_Parsers.cfg", cfgx), trace)
        if st["rejected"] or not st["ok"]:
            print("DRIFT: buffer-space accounting differs from the implementation-shaped model (%s)" % (st["rejected"][:1],))
            ev.drifts += 1
    os.remove(trace)


@check("C02")
def c02(ev, tier, seed):
    ev.rule = ("MC_StreamParser: wires = 2-record preamble + sequences of stream / terminator / later-stream / GetValues / unknown / "
               "stale Params / foreign and duplicate BeginRequest / foreign-id stream / abort / bad-version records with paddings "
               "0,1,7,9; roles 1 and 3 (2 in menu auth); caller alphabet parse(n, None|Some(d)) x consume_stream(1|all) x compress x "
               "consume_output(1|all) x set_stream(any), every interleaving that respects the documented preconditions. Invariants: "
               "DeliveredIsPrefix (delivered ++ buffered is a prefix of the reference stream as wire intervals), EosExact, "
               "ContentMatchesGeometry, Geometry. Every transition replayed on the real parser comparing BYTES; chain traces with "
               "65535-byte records and 200 kB streams through 24-byte to 8 KiB buffers validated by Trace_Parsers. "
               "Non-trivial: history of at least two calls / input longer than 40 bytes.")
    if tier == "thorough":
        sp_model(ev, "C02", seed, "mini", 24, ["mini"], "quick", [0, 2])
        sp_model(ev, "C02", seed, "mini3-b32", 32, ["mini3"], "quick", [0, 1, 64])
    else:
        sp_model(ev, "C02", seed, "mini3", 24, ["mini3"], "tiny", [2])
    chain_traces(ev, "C02", seed, 1500 if tier == "thorough" else 120)
    ev.exhaustive = False
    ev.assumptions = ["stream parsers are obtained through request::Parser::into_stream_parser (the only public constructor path with a Request)",
                      "delivered bytes are located on the wire by the harness (next bytes of the active stream type and request id), then compared by TLC as intervals"]


@check("C18")
def c18(ev, tier, seed):
    ev.rule = ("All 3 roles x every current selection x every requested selection (finite table, reached through set_stream in every "
               "state of the model), over all one- and two-record sequences of the 16-symbol record alphabet (every stream type in "
               "every order, own and foreign ids) and the mini menu; StreamMonotone, RejectChangesNothing, ReselectKeepsBuffer as "
               "action properties; DeliveredIsPrefix covers 'never data of another stream'. Edge-cover replay + chain traces.")
    sp_model(ev, "C18", seed, "pairs", 24, ["pairs"], "tiny", [2] if tier == "quick" else [0, 2], ops=("cs", "ss", "c"))
    if tier == "thorough":
        sp_model(ev, "C18", seed, "mini", 24, ["mini"], "quick", [0, 2])
    chain_traces(ev, "C18", seed, 1000 if tier == "thorough" else 100)
    ev.exhaustive = False
    ev.assumptions = ["the async Request::set_stream panic on a rejected selection is observed in the connection replays (C09)"]


@check("C05")
def c05(ev, tier, seed):
    ev.rule = ("Hand-offs: (1) every MC_ReqParser edge ends with into_request / into_stream_parser on a clone (leftover = wire[pos, fed)); "
               "(2) every MC_StreamParser edge ends with into_input / into_request_parser on a clone (leftover = wire[rawLo, fed), free "
               "space of the new parser); look-ahead 0..full buffer ending mid-header / mid-payload / mid-padding comes from the call "
               "partitions; (3) chains of 1..3 requests through one shared buffer with callers that read everything / stop mid-stream "
               "/ read nothing, recorded and validated by Trace_Parsers with the hand-off offsets, the next request and its "
               "environment bound. Non-trivial: history that fed at least one byte / input longer than 40 bytes.")
    rp_model(ev, "C05", seed, "b24", 24, ["pad", "inter", "trunc"], "quick" if tier == "quick" else "all")
    sp_model(ev, "C05", seed, "mini3", 24, ["mini3"], "tiny" if tier == "quick" else "quick", [2], ops=("cs", "c", "ss"))
    chain_traces(ev, "C05", seed, 3000 if tier == "thorough" else 250)
    ev.exhaustive = False
    ev.assumptions = ["'k separate connections' is represented by the specification's reference semantics per request (RefReq / RefStream), "
                      "which every accepted trace event is compared against"]


# ---------------------------------------------------------------------------- connection layer (C07 C08 C09 C11 C12 C14)
CONN_INVARIANTS = "ReuseIff NoOwedReplyWhileWaiting NoWaitCycle OneHandlerPerRequest EpilogueShape Emit"


def conn_cfg(B, menu, sizes="all", spurious=False, stops=False, faults=(), maxcuts=2, maxpend=1, fixa=True, fixb=True, invariants=None):
    return ("SPECIFICATION Spec\nCONSTANTS\n  B = %d\n  ND = 1\n  FixA = %s\n  FixB = %s\n  Menu = %s\n  Sizes = \"%s\"\n  Spurious = %s\n"
            "  Stops = %s\n  Faults = %s\n  MaxCuts = %d\n  MaxPend = %d\nINVARIANTS %s\nPROPERTIES NoHandlerAfterStop\nCHECK_DEADLOCK FALSE\n"
            % (B, str(fixa).upper(), str(fixb).upper(), cl.tla_set(menu), sizes, str(spurious).upper(), str(stops).upper(), cl.tla_set(faults),
               maxcuts, maxpend, invariants or CONN_INVARIANTS))


def conn_model(ev, prop, seed, label, B, menu, timeout=2400, heap="16g", **kw):
    name = "%s-conn-%s" % (prop, label)
    known = ",".join(cl.load_known(prop).keys())
    stats, h = cl.run_tlc_piped(name, "MC_Conn", conn_cfg(B, menu, **kw),
                                ["conn-replay", "--prop", prop, "--seed", str(seed), "--threads", str(cl.NCPU), "--known", known],
                                timeout=timeout, workers=max(4, cl.NCPU - 6), heap=heap)
    ev.add_tlc("MC_Conn B=%d menu=%s %s" % (B, ",".join(menu), " ".join("%s=%s" % kv for kv in sorted(kw.items()))), stats)
    ev.add_harness("behaviours replayed on Token::run (%s)" % label, h)


def conn_traces(ev, prop, seed, scenarios, sizes=(24, 8192)):
    """impl -> spec for the connection layer: seeded random connections (realistic sizes, random handler programs,
    random transport behaviour, random EOF / write faults) recorded at the mock transport and validated by Trace_Conn."""
    for B in sizes:
        name = "%s-conntrace-b%d" % (prop, B)
        wd = os.path.join(cl.OUT, name)
        os.makedirs(wd, exist_ok=True)
        trace = os.path.join(wd, "trace.ndjson")
        h = cl.run_harness(name, ["conn-trace", "--prop", prop, "--seed", str(seed), "--scenarios", str(scenarios), "--B", str(B), "--trace", trace])
        ev.add_harness("seeded random connections on Token::run, B=%d (recorded)" % B, h, as_traces=False)
        cfg = ("SPECIFICATION TraceSpec\nCONSTANTS\n  B = %d\n  ND = 1\n  FixA = TRUE\n  FixB = TRUE\nPOSTCONDITION Accepted\nCHECK_DEADLOCK FALSE\n" % B)
        events, rejected = cl.validate_trace(ev, prop, name, "Trace_Conn", cfg, trace,
                                             {"cmd": "conn-trace", "prop": prop, "seed": seed, "scenarios": scenarios, "B": B})
        ev.traces += (h.get("extra") or {}).get("trace_runs", 0)
        ev.extra.setdefault("trace_events_validated", 0)
        ev.extra["trace_events_validated"] += events
        os.remove(trace)


CONN_ASSUME = ["the connection task is polled by a single-task executor: what happens between two transport calls is atomic",
               "transport outcomes are scheduled by byte offset (cuts, spurious Pending, faults); at most MaxCuts partial transfers and MaxPend spurious Pending per behaviour, at every offset",
               "the peer sends whole records and releases gated records only after it observed the awaited EndRequest / reply in the bytes written"]


@check("C08")
def c08(ev, tier, seed):
    ev.rule = ("MC_Conn scenario family 'query': a GetValues / unknown-type query before the first request, in the same transport read as "
               "the end of a request, between requests, right after Params, mid-stream while the handler is blocked reading, and behind "
               "a request whose handler does not read; the peer withholds everything behind the query until it has observed the reply; "
               "every way the transport splits reads and writes with up to 2 partial transfers at any offset (+ spurious Pending in "
               "thorough). Invariants NoOwedReplyWhileWaiting and NoWaitCycle on the model; each behaviour is replayed on the real "
               "Token::run and the predicate 'suspended on read with nothing released => replies owed for the bytes read have been "
               "written' is evaluated on the real byte logs. The model with FixA/FixB = FALSE reproduces the two repaired defects "
               "(see KNOWN_FINDINGS). Non-trivial: behaviours with more than two transport events.")
    for B in (24, 32):
        conn_model(ev, "C08", seed, "query-b%d" % B, B, ["query"], maxcuts=2 if tier == "quick" else 3)
    if tier == "thorough":
        conn_model(ev, "C08", seed, "query-pend", 32, ["query"], spurious=True, maxcuts=1, maxpend=2)
    ev.exhaustive = False
    ev.assumptions = CONN_ASSUME


@check("C07")
def c07(ev, tier, seed):
    ev.rule = ("MC_Conn families 'basic' (roles 1/2/3, keep-conn both ways, handlers: echo with stdout+stderr, write-without-reading, "
               "partial read via read / fill_buf+consume, filter with set_stream and writeable(), every ExitStatus variant, two requests "
               "released one after the other), 'query' and 'abort'; B in {24, 32}; every split of reads/writes with up to 2 partial "
               "transfers at any offset. Invariants OneHandlerPerRequest, EpilogueShape, ReuseIff; each behaviour replayed on the "
               "real Token::run comparing handler invocations (request, environment, bytes read), the outbound byte stream and "
               "whether run() returned. Non-trivial: more than two transport events.")
    conn_model(ev, "C07", seed, "basic-b24", 24, ["basic", "abort", "query"])
    # queries next to stream data with the write side not ready at that moment (the handler's input must not be lost)
    conn_model(ev, "C07", seed, "query-pend", 24, ["query"], spurious=True, maxcuts=0, maxpend=1)
    conn_traces(ev, "C07", seed, 400 if tier == "thorough" else 60, sizes=(24, 256, 8192) if tier == "thorough" else (24, 8192))
    if tier == "thorough":
        # (three partial transfers over all three families at once exceeds a 16 GB heap since the big-record scenarios were added)
        conn_model(ev, "C07", seed, "basic-b32", 32, ["basic"], maxcuts=2)
        conn_model(ev, "C07", seed, "qa-b32", 32, ["abort", "query"], maxcuts=3)
        conn_model(ev, "C07", seed, "basic-pend", 24, ["basic"], spurious=True, maxcuts=1, maxpend=2)
    ev.exhaustive = False
    ev.assumptions = CONN_ASSUME + ["a write of more than 65535 bytes (several records) is not in the handler menu"]


@check("C09")
def c09(ev, tier, seed):
    ev.rule = ("MC_Conn family 'reads': Filter and Responder requests whose streams are interleaved with GetValues / unknown records; "
               "handler programs mixing read(0|1|2|5|64), read-until-EOF, fill_buf+consume(1|64), legal and illegal set_stream, "
               "writeable(), reads after EOF (EOF must persist), writes; is_writeable() sampled after every operation; every split of "
               "transport reads and writes with up to 2 (thorough 3) partial transfers at any offset, spurious Pending in thorough. "
               "The replay compares every value returned by poll_read / poll_fill_buf byte for byte with the wire intervals the "
               "specification predicts, the result of set_stream, and the is_writeable() samples.")
    conn_model(ev, "C09", seed, "reads-b24", 24, ["reads"], maxcuts=2)
    conn_model(ev, "C09", seed, "reads-pend-q", 24, ["reads"], spurious=True, maxcuts=1, maxpend=1)
    # the writeable flag as the handler sees it when a read fails half-way (EOF at every inbound offset)
    conn_model(ev, "C09", seed, "reads-eof", 24, ["reads"], faults=("eof",), maxcuts=0)
    conn_traces(ev, "C09", seed + 1, 400 if tier == "thorough" else 60, sizes=(24, 64, 8192) if tier == "thorough" else (32, 8192))
    if tier == "thorough":
        # (behaviour histories live in the state: three partial transfers over nine programs need more than 16 GB)
        conn_model(ev, "C09", seed, "reads-b32", 32, ["reads"], maxcuts=3, heap="28g", timeout=3600)
        conn_model(ev, "C09", seed, "reads-pend", 24, ["reads"], spurious=True, maxcuts=1, maxpend=2)
    ev.exhaustive = False
    ev.assumptions = CONN_ASSUME


@check("C11")
def c11(ev, tier, seed):
    ev.rule = ("AbortRequest (own / other id, with body and padding) after every record of the preamble (MC_ReqParser hostile + inter "
               "menus: abort during Params => one EndRequest RequestComplete, no request, parser back in Header mode) and of each "
               "input stream (MC_StreamParser mini menus: error held at the abort header, delivered bytes a prefix), and end to end in "
               "MC_Conn family 'abort': handlers that are reading, buffered-reading, not reading, already past end-of-stream, with "
               "their own status or the ABRT status, followed by a further request on the same connection.")
    rp_model(ev, "C11", seed, "rp", 24, ["hostile", "inter"], "quick" if tier == "quick" else "all")
    sp_model(ev, "C11", seed, "sp", 24, ["mini3"], "tiny", [2], ops=("cs", "ss"))
    for B in ((24, 32) if tier == "thorough" else (24,)):
        conn_model(ev, "C11", seed, "abort-b%d" % B, B, ["abort"], maxcuts=2)
    conn_traces(ev, "C11", seed + 2, 400 if tier == "thorough" else 60)
    if tier == "thorough":
        chain_traces(ev, "C11", seed, 1500)
    ev.exhaustive = False
    ev.assumptions = CONN_ASSUME


@check("C12")
def c12(ev, tier, seed):
    ev.rule = ("One fault per behaviour on the 'basic' (and in thorough 'reads', 'abort') scenarios: EOF at every inbound byte offset, a "
               "read error at record-structured offsets, a write error at every outbound offset 0..72, a zero-length write; combined "
               "with 1 (thorough 2) partial transfer at any offset. The replay runs Token::run under catch_unwind with a poll budget "
               "(spinning = violation), checks that nothing is written after a failed write, that no handler runs without a complete "
               "preamble (handler invocation count and requests equal the specification's), and that a waiting handler receives the "
               "predicted error kind instead of a short read.")
    conn_model(ev, "C12", seed, "faults-b24", 24, ["basic"], faults=("eof", "rerr", "werr", "wzero"), maxcuts=1)
    # faults on the reply-flushing paths: scenarios with management records mid-stream and behind unread input
    conn_model(ev, "C12", seed, "faults-replies", 32, ["reads", "query"], faults=("werr", "wzero", "eof"), maxcuts=0)
    conn_traces(ev, "C12", seed + 3, 600 if tier == "thorough" else 80)
    if tier == "thorough":
        conn_model(ev, "C12", seed, "faults-b32", 32, ["basic", "reads", "abort"], faults=("eof", "rerr", "werr", "wzero"), maxcuts=1)
        conn_model(ev, "C12", seed, "faults-cuts2", 24, ["basic"], faults=("eof", "werr"), maxcuts=2)
    ev.exhaustive = False
    ev.assumptions = CONN_ASSUME + ["'for a handler that propagates I/O errors': every handler program returns the error of a failed read or write"]


@check("C10")
def c10(ev, tier, seed):
    ev.rule = ("MC_Writer: three tasks (stdout writer, stderr writer, and a clone of the stdout writer or the request's own reply "
               "flushing) with programs over write sizes 0,1,2,3,5,7,8,9,16 (+ 65536 in menu 6; 65535, 65536, 70000 in the thorough menu 5) and flush; any runnable "
               "task may be polled whenever no poll is in progress; the transport accepts bytes up to every structural boundary of a "
               "record image (inside the header, header/payload seam, inside the payload, payload/padding seam, inside the padding) "
               "or returns Pending (the lock stays with the task). Invariants NoInterleave, LockHeldWhileWriting, PerWriterOrder, "
               "ExactlyOnce. Every complete behaviour is replayed on real StreamWriters taken from a real Request (tasks polled in "
               "the behaviour's order) and the bytes reaching the client are compared with the record images the specification lists. "
               "Non-trivial: behaviours with lock contention or a Pending transport.")
    menus = "{1, 2, 3, 4, 6}" if tier == "quick" else "{1, 2, 3, 4, 5, 6}"
    cuts, pends = (1, 2) if tier == "quick" else (2, 2)
    cfg = ("SPECIFICATION Spec\nCONSTANTS\n  NT = 3\n  MaxCuts = %d\n  MaxPend = %d\n  Menu = %s\n"
           "INVARIANTS NoInterleave LockHeldWhileWriting PerWriterOrder ExactlyOnce Emit\nCHECK_DEADLOCK FALSE\n" % (cuts, pends, menus))
    stats, h = cl.run_tlc_piped("C10-writer", "MC_Writer", cfg, ["writer-replay", "--seed", str(seed)], workers=max(4, cl.NCPU - 4), heap="16g")
    ev.add_tlc("MC_Writer menus=%s MaxCuts=%d MaxPend=%d" % (menus, cuts, pends), stats)
    ev.add_harness("behaviours replayed on real StreamWriters / poll_output", h)
    ev.exhaustive = False
    ev.assumptions = ["futures' Mutex is modelled as a plain lock (who is woken when is not part of the property); a task waiting for the lock is polled again once the lock was released",
                      "single-writer record well-formedness under every cut is additionally covered by the HW_write path of Conn.tla (C07)"]


@check("C13")
def c13(ev, tier, seed):
    ev.rule = ("MC_Runner (call-atomic): limits 1..3, 4 (thorough 5) request futures created on the runner and on a clone alternately; "
               "all histories of create / poll / drop-pending-request / drop-token with the dependency semantics of async-lock 3.4 and "
               "event-listener 5.3 (listen, non-additional notify(1), propagation when a notified listener is dropped, barging). "
               "Invariants TokenBound, NoStrandedSlot, QueueSane, action property ImmediateWhenFree. Every transition is replayed on "
               "the real Runner/Token with counting wakers (poll results, wake-ups, live tokens). Thread interleavings inside the "
               "dependencies cannot be steered from outside: a seeded multi-thread stress run (acquire / cancel / release on runner "
               "and clones, independent live-token counter, every waiter must finish) complements the model.")
    nf = 5 if tier == "thorough" else 4
    for limit in (1, 2, 3):
        cfg = ("SPECIFICATION Spec\nCONSTANTS\n  MaxConns = %d\n  NF = %d\nVIEW View\nACTION_CONSTRAINT Emit\n"
               "INVARIANTS TokenBound NoStrandedSlot QueueSane\nPROPERTIES ImmediateWhenFree\nCHECK_DEADLOCK FALSE\n" % (limit, nf))
        stats, h = cl.run_tlc_piped("C13-runner-%d" % limit, "MC_Runner", cfg, ["runner-replay", "--prop", "C13", "--which", "runner"], workers=4)
        ev.add_tlc("MC_Runner MaxConns=%d NF=%d" % (limit, nf), stats)
        ev.add_harness("histories replayed on Runner/Token (limit %d)" % limit, h)
    # a runner and its clone with shutdown of either: the limit is shared and survives a shutdown (Server.tla, see 13.9)
    for limit in (1, 2):
        cfg = ("SPECIFICATION Spec\nCONSTANTS\n  MaxConns = %d\n  NF = 4\nVIEW View\nACTION_CONSTRAINT Emit\n"
               "INVARIANTS SharedLimit QueueSane NoStrandedSlot\nCHECK_DEADLOCK FALSE\n" % limit)
        stats, h = cl.run_tlc_piped("C13-server-%d" % limit, "MC_Server", cfg, ["runner-replay", "--prop", "C13", "--which", "server"], workers=4)
        ev.add_tlc("MC_Server MaxConns=%d NF=4 (runner + clone + shutdown)" % limit, stats)
        ev.add_harness("runner + clone histories with shutdown replayed (limit %d)" % limit, h)
    # the token is held for the whole of Token::run: probed at every suspension of replayed connections
    conn_model(ev, "C13", seed, "permit", 24, ["basic"], spurious=True, maxcuts=1, maxpend=1)
    hs = cl.run_harness("C13-stress", ["runner-stress", "--seed", str(seed), "--rounds", "300" if tier == "thorough" else "60"])
    ev.add_harness("multi-thread stress (supplementary, not model-based)", hs, as_traces=False)
    ev.exhaustive = False
    ev.assumptions = ["the semaphore and event-listener crates behave as transcribed in DESIGN.md appendix D (read from the vendored sources); "
                      "their internal thread-safety is exercised only by the stress run"]


@check("C14")
def c14(ev, tier, seed):
    ev.rule = ("(a) MC_WaitGroup (instruction-atomic): 0..3 live tokens, shutdown, up to 3 polls of the shutdown future, each poll split "
               "into upgrade / register / drop-temporary, token drops interleaved at every point; invariants ShutdownNotEarly, "
               "ShutdownWoken, liveness Completes under fairness. Every interleaving is forced onto the real code through the "
               "scheduling-point hook (drops run inside WaitGroupFuture::poll). (b) MC_Conn with a shutdown request at every suspension "
               "(start, spurious Pending in every phase, idle connection): NoHandlerAfterStop, in-flight request completes with its "
               "EndRequest, idle connection returns without reading; behaviours replayed on Token::run with Runner::shutdown.")
    for n in (0, 1, 2, 3):
        cfg = ("SPECIFICATION Spec\nCONSTANTS\n  NTok = %d\n  MaxPolls = 3\nACTION_CONSTRAINT Emit\nINVARIANTS ShutdownNotEarly ShutdownWoken\n"
               "CHECK_DEADLOCK FALSE\n" % n)
        stats, h = cl.run_tlc_piped("C14-wg-%d" % n, "MC_WaitGroup", cfg, ["runner-replay", "--prop", "C14", "--which", "waitgroup"], workers=2)
        ev.add_tlc("MC_WaitGroup NTok=%d" % n, stats)
        ev.add_harness("interleavings forced through the hook (%d tokens)" % n, h)
    # liveness (unbounded polling, histories not recorded): the future completes under fairness
    live = ("SPECIFICATION LiveSpec\nCONSTANTS\n  NTok = 3\n  MaxPolls = 0\nINVARIANTS ShutdownNotEarly ShutdownWoken\nPROPERTY Completes\nCHECK_DEADLOCK FALSE\n")
    stats, h = cl.run_tlc_piped("C14-wg-live", "MC_WaitGroup", live, ["runner-replay", "--prop", "C14", "--which", "waitgroup"], workers=1)
    ev.add_tlc("MC_WaitGroup liveness (Completes under weak fairness)", stats)
    # specification-level, symbolic: both safety properties for ANY number of tokens by an inductive invariant (Apalache on
    # AP_WaitGroup.tla, which TLC shows to be refined by WaitGroup.tla)
    bst = cl.run_tlc_only("C14-bridge", "MC_APWaitGroup", "MC_APWaitGroup.cfg")
    ev.add_tlc("MC_APWaitGroup (WaitGroup!Spec refines AP_WaitGroup!Spec, NTok=3)", bst)
    ap = cl.run_apalache("C14-apalache", "AP_WaitGroup", [("IndInv", "WInit", 0), ("IndInv", "IndInit", 1), ("Safety", "IndInit", 0)])
    ev.stages.append({"stage": "Apalache: inductive invariant => ShutdownNotEarly, ShutdownWoken for any NTok (specification level)", "apalache": ap})
    conn_model(ev, "C14", seed, "stops-b24", 24, ["basic"], spurious=True, stops=True, maxcuts=1, maxpend=1)
    if tier == "thorough":
        conn_model(ev, "C14", seed, "stops-b32", 32, ["basic", "query"], spurious=True, stops=True, maxcuts=1, maxpend=2)
    ev.exhaustive = False
    ev.assumptions = CONN_ASSUME + ["Arc/Weak and AtomicWaker behave as documented (upgrade fails iff no strong reference; wake takes the registered waker)"]


# ---------------------------------------------------------------------------- CGI helpers (C19 C20)
def run_tlc_env(name, module, cfg_text, harness_args, env, workers=4, timeout=900):
    """like run_tlc_piped, with extra environment variables for IOEnv."""
    old = {k: os.environ.get(k) for k in env}
    os.environ.update(env)
    try:
        return cl.run_tlc_piped(name, module, cfg_text, harness_args, workers=workers, timeout=timeout)
    finally:
        for k, v in old.items():
            if v is None:
                os.environ.pop(k, None)
            else:
                os.environ[k] = v


@check("C19")
def c19(ev, tier, seed):
    ev.rule = ("VarName.tla transcribes equality / order / hash feeding / header mapping as operators over byte strings. Mode 'laws': "
               "all strings of length <= 2 (thorough 3) over {a, A, b, _, -, the bytes of e-acute and E-acute} with LANES = 2: "
               "equivalence, total order consistent with it, equal => identical hash writes, prefix-freeness, 'ASCII case only'. Mode "
               "'vectors': every n-th interned name (read from intern.rs; thorough: all) and names of length 1,2,15,16,17,31,32,33,48 in "
               "upper / lower / mixed case, with the last byte dropped, with one non-ASCII substitution and one appended byte, all pairs "
               "per name; replayed on VarName / OwnedVarName through every constructor, a recording Hasher, a HashMap lookup and "
               "From<&HeaderName>. This is a transcription + vector binding, the weakest use of the technique here.")
    # depth 2 over the full alphabet (incl. the bytes next to the letter ranges); thorough adds depth 3 over the eight-symbol core
    for depth in ((2, 3) if tier == "thorough" else (2,)):
        laws = "SPECIFICATION Spec\nCONSTANTS\n  Mode = \"laws\"\n  Depth = %d\nINVARIANTS Laws Emit\nCHECK_DEADLOCK FALSE\n" % depth
        stats, h = cl.run_tlc_piped("C19-laws-%d" % depth, "MC_VarName", laws, ["cgi-vectors", "--prop", "C19"], workers=max(4, cl.NCPU - 4), timeout=1500)
        ev.add_tlc("MC_VarName laws depth=%d" % depth, stats)
    names = os.path.join(cl.OUT, "C19-names.ndjson")
    subprocess.run([cl.HARNESS, "dump-names", "--file", names, "--limit", "400" if tier == "thorough" else "40"], check=True)
    vec = "SPECIFICATION Spec\nCONSTANTS\n  Mode = \"vectors\"\n  Depth = 1\nINVARIANTS Laws Emit\nCHECK_DEADLOCK FALSE\n"
    stats, h = run_tlc_env("C19-vectors", "MC_VarName", vec, ["cgi-vectors", "--prop", "C19"], {"NAMES": names})
    ev.add_tlc("MC_VarName vectors", stats)
    ev.add_harness("vectors replayed on VarName / OwnedVarName", h)
    ev.exhaustive = False
    ev.assumptions = ["only valid UTF-8 strings can be given to the name types; 'arbitrary hashers' is represented by a hasher that records its calls"]


@check("C20")
def c20(ev, tier, seed):
    ev.rule = ("Response.tla states the grammar as operators (status line, header lines, blank line; redirect). MC_Response: status codes "
               "{100,199,200,299,404,418,451,599,600,999} (thorough: all 100..999) with the reason phrase supplied from the http crate's "
               "table, header lists of 0..2 headers over names/values {'', 'a', 'ab', '- \\xff'}, every destination capacity 0..len+1; "
               "expected bytes, byte count and failure replayed on write_headers, simple_redirect (bounded &mut [u8] and Vec) and "
               "http_headers.")
    reasons = os.path.join(cl.OUT, "C20-reasons.ndjson")
    subprocess.run([cl.HARNESS, "dump-reasons", "--file", reasons], check=True)
    cfg = "SPECIFICATION Spec\nCONSTANT Full = %s\nINVARIANTS Laws Emit\nCHECK_DEADLOCK FALSE\n" % ("TRUE" if tier == "thorough" else "FALSE")
    stats, h = run_tlc_env("C20-vectors", "MC_Response", cfg, ["cgi-vectors", "--prop", "C20"], {"REASONS": reasons})
    ev.add_tlc("MC_Response", stats)
    ev.add_harness("vectors replayed on the header writers", h)
    ev.exhaustive = False
    ev.assumptions = ["the reason phrase is an input taken from the http crate (canonical_reason, 'Custom' otherwise)"]


@check("EXTRA")
def extra(ev, tier, seed):
    """Not a property check (not registered in MANIFEST.json): conformance of the parts of the specification that go beyond
    the listed properties - pipelining clients, multiplexing attempts, unknown roles, fatal headers at connection level.
    Differences are reported as DRIFT / NOTE only."""
    ev.rule = "MC_Conn family 'beyond' replayed on Token::run; differences are drift, never violations"
    for B in (24, 32):
        conn_model(ev, "EXTRA", seed, "beyond-b%d" % B, B, ["beyond"], maxcuts=2, invariants="OneHandlerPerRequest EpilogueShape Emit")
    # a runner and its clone: one shared limit, separate stop events and wait-groups ("must be shut down separately")
    for limit in (1, 2):
        cfg = ("SPECIFICATION Spec\nCONSTANTS\n  MaxConns = %d\n  NF = 4\nVIEW View\nACTION_CONSTRAINT Emit\n"
               "INVARIANTS SharedLimit ShutdownOwnTokensOnly ShutdownNotHeldByOther StopOwnTokensOnly StopReachesAll QueueSane NoStrandedSlot\n"
               "CHECK_DEADLOCK FALSE\n" % limit)
        stats, h = cl.run_tlc_piped("EXTRA-server-%d" % limit, "MC_Server", cfg, ["runner-replay", "--prop", "EXTRA", "--which", "server"], workers=4)
        ev.add_tlc("MC_Server MaxConns=%d NF=4" % limit, stats)
        ev.add_harness("runner + clone histories replayed on Runner / Token / Token::run (limit %d)" % limit, h)
