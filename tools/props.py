"""Per-property check procedures (what `check <id>` runs).  Each procedure
fills an Evidence object; violations are printed by the harness as
`VIOLATION property=<id> replay=<path>` lines."""
import glob
import os
import subprocess

import checklib as cl
from checklib import ToolError, log

CHECKS = {}


def check(pid):
    def deco(f):
        CHECKS[pid] = f
        return f
    return deco


def sany_all():
    """setup: parse every specification module once."""
    bad = 0
    for f in sorted(glob.glob(os.path.join(cl.SPEC, "*.tla"))):
        r = subprocess.run(["java", "-cp", cl.TLC_JAR_CP, "tla2sany.SANY", os.path.basename(f)], cwd=cl.SPEC,
                           stdout=subprocess.PIPE, stderr=subprocess.STDOUT, text=True)
        ok = r.returncode == 0 and "*** Errors" not in r.stdout and "Fatal" not in r.stdout
        log("sany %-28s %s" % (os.path.basename(f), "ok" if ok else "FAILED"))
        if not ok:
            print(r.stdout[-2000:])
            bad += 1
    return 2 if bad else 0


# ---------------------------------------------------------------------------- C15
@check("C15")
def c15(ev, tier, seed):
    ev.rule = ("TLC enumerates the case family of MC_Codec15 (values 0..300, 2^k-1/2^k/2^k+1, all one-byte inputs, "
               "truncations, a boundary alphabet of four-byte inputs, u32 conversion inputs as 16-bit halves); every "
               "state is one case, checked against the laws in the spec and replayed on VarInt::{read,write,try_from}. "
               "The sweep then compares the code with a mirror of the spec's two operators (validated on every TLC "
               "vector) on all 2^32 u32 inputs (thorough) or 1/64 of the 2^16-blocks (quick). Non-trivial: value >= 1.")
    stats, h = cl.run_tlc_piped("C15-vectors", "MC_Codec15", "MC_Codec15.cfg", ["vectors", "--prop", "C15"])
    ev.add_tlc("MC_Codec15", stats)
    ev.add_harness("vectors replayed on the code", h)
    shift = "0" if tier == "thorough" else "6"
    hs = cl.run_harness("C15-sweep", ["sweep-varint", "--shift", shift, "--threads", str(cl.NCPU)])
    ev.add_harness("exhaustive sweep against the validated mirror", hs, as_traces=False)
    ev.exhaustive = tier == "thorough"
    ev.assumptions = ["TLC integers are 32-bit: u32 inputs above 2^31-1 are represented as two 16-bit halves",
                      "the Rust mirror of EncVarInt/DecVarInt is trusted only after it agreed with every TLC vector of this run"]


# ---------------------------------------------------------------------------- C16
@check("C16")
def c16(ev, tier, seed):
    ev.rule = ("MC_Codec16: every byte string of length <= 5 over {0,1,2,3,127,128,129,255} plus hostile announcements, and "
               "pair lists with lengths from {0,1,127,128,129}; each case carries the expected pairs as offsets into the "
               "input, the suffix offset and the size hint; laws (consecutive sub-slices, stop at first incomplete pair, "
               "prefix-monotone at cut points, round trip) are TLC invariants; the harness compares slice pointers "
               "(zero-copy), the mutable variant and nv::write. Non-trivial: non-empty input.")
    stats, h = cl.run_tlc_piped("C16-vectors", "MC_Codec16", "MC_Codec16.cfg", ["vectors", "--prop", "C16"])
    ev.add_tlc("MC_Codec16", stats)
    ev.add_harness("vectors replayed on the code", h)
    ev.exhaustive = False
    ev.assumptions = ["lengths of 65535 and above are covered by the parser trace checks, not by this model"]


# ---------------------------------------------------------------------------- C17
@check("C17")
def c17(ev, tier, seed):
    cfg = "MC_Codec17_full.cfg" if tier == "thorough" else "MC_Codec17.cfg"
    ev.rule = ("MC_Codec17: header decode on all (version,type) byte pairs (thorough: 2^16, quick: 256x20) and on field "
               "samples, header encode on 11 types x ids x lengths x paddings, the padding rule on all content lengths "
               "(thorough), BeginRequest on all 2^16 roles (thorough) and all flag bytes, EndRequest on all status bytes, "
               "UnknownType on all type bytes, every exit status, GetValuesResult for all 8 subsets x limits at every "
               "decimal-length boundary up to usize::MAX x pre-filled buffers x Vec/SmallVec. Every case is distinct.")
    stats, h = cl.run_tlc_piped("C17-vectors", "MC_Codec17", cfg, ["vectors", "--prop", "C17"], timeout=900)
    ev.add_tlc("MC_Codec17 (%s)" % cfg, stats)
    ev.add_harness("vectors replayed on the code", h)
    ev.exhaustive = False
    ev.assumptions = ["the end-of-request byte sequence is not public; its EndRequest part is compared here, the whole sequence "
                      "is observed through Request::close in the connection replays (C07)"]
