"""Per-property check procedures (what `check <id>` runs).  Each procedure
fills an Evidence object; violations are printed by the harness as
`VIOLATION property=<id> replay=<path>` lines."""
import glob
import os
import subprocess

import checklib as cl
from checklib import ToolError, log

CHECKS = {}


def check(pid):
    def deco(f):
        CHECKS[pid] = f
        return f
    return deco


def sany_all():
    """setup: parse every specification module once."""
    bad = 0
    for f in sorted(glob.glob(os.path.join(cl.SPEC, "*.tla"))):
        r = subprocess.run(["java", "-cp", cl.TLC_JAR_CP, "tla2sany.SANY", os.path.basename(f)], cwd=cl.SPEC,
                           stdout=subprocess.PIPE, stderr=subprocess.STDOUT, text=True)
        ok = r.returncode == 0 and "*** Errors" not in r.stdout and "Fatal" not in r.stdout
        log("sany %-28s %s" % (os.path.basename(f), "ok" if ok else "FAILED"))
        if not ok:
            print(r.stdout[-2000:])
            bad += 1
    return 2 if bad else 0


# ---------------------------------------------------------------------------- C15
@check("C15")
def c15(ev, tier, seed):
    ev.rule = ("TLC enumerates the case family of MC_Codec15 (values 0..300, 2^k-1/2^k/2^k+1, all one-byte inputs, "
               "truncations, a boundary alphabet of four-byte inputs, u32 conversion inputs as 16-bit halves); every "
               "state is one case, checked against the laws in the spec and replayed on VarInt::{read,write,try_from}. "
               "The sweep then compares the code with a mirror of the spec's two operators (validated on every TLC "
               "vector) on all 2^32 u32 inputs (thorough) or 1/64 of the 2^16-blocks (quick). Non-trivial: value >= 1.")
    stats, h = cl.run_tlc_piped("C15-vectors", "MC_Codec15", "MC_Codec15.cfg", ["vectors", "--prop", "C15"])
    ev.add_tlc("MC_Codec15", stats)
    ev.add_harness("vectors replayed on the code", h)
    shift = "0" if tier == "thorough" else "6"
    hs = cl.run_harness("C15-sweep", ["sweep-varint", "--shift", shift, "--threads", str(cl.NCPU)])
    ev.add_harness("exhaustive sweep against the validated mirror", hs, as_traces=False)
    ev.exhaustive = tier == "thorough"
    ev.assumptions = ["TLC integers are 32-bit: u32 inputs above 2^31-1 are represented as two 16-bit halves",
                      "the Rust mirror of EncVarInt/DecVarInt is trusted only after it agreed with every TLC vector of this run"]


# ---------------------------------------------------------------------------- C16
@check("C16")
def c16(ev, tier, seed):
    ev.rule = ("MC_Codec16: every byte string of length <= 5 over {0,1,2,3,127,128,129,255} plus hostile announcements, and "
               "pair lists with lengths from {0,1,127,128,129}; each case carries the expected pairs as offsets into the "
               "input, the suffix offset and the size hint; laws (consecutive sub-slices, stop at first incomplete pair, "
               "prefix-monotone at cut points, round trip) are TLC invariants; the harness compares slice pointers "
               "(zero-copy), the mutable variant and nv::write. Non-trivial: non-empty input.")
    stats, h = cl.run_tlc_piped("C16-vectors", "MC_Codec16", "MC_Codec16.cfg", ["vectors", "--prop", "C16"])
    ev.add_tlc("MC_Codec16", stats)
    ev.add_harness("vectors replayed on the code", h)
    ev.exhaustive = False
    ev.assumptions = ["lengths of 65535 and above are covered by the parser trace checks, not by this model"]


# ---------------------------------------------------------------------------- C17
@check("C17")
def c17(ev, tier, seed):
    cfg = "MC_Codec17_full.cfg" if tier == "thorough" else "MC_Codec17.cfg"
    ev.rule = ("MC_Codec17: header decode on all (version,type) byte pairs (thorough: 2^16, quick: 256x20) and on field "
               "samples, header encode on 11 types x ids x lengths x paddings, the padding rule on all content lengths "
               "(thorough), BeginRequest on all 2^16 roles (thorough) and all flag bytes, EndRequest on all status bytes, "
               "UnknownType on all type bytes, every exit status, GetValuesResult for all 8 subsets x limits at every "
               "decimal-length boundary up to usize::MAX x pre-filled buffers x Vec/SmallVec. Every case is distinct.")
    stats, h = cl.run_tlc_piped("C17-vectors", "MC_Codec17", cfg, ["vectors", "--prop", "C17"], timeout=900)
    ev.add_tlc("MC_Codec17 (%s)" % cfg, stats)
    ev.add_harness("vectors replayed on the code", h)
    ev.exhaustive = False
    ev.assumptions = ["the end-of-request byte sequence is not public; its EndRequest part is compared here, the whole sequence "
                      "is observed through Request::close in the connection replays (C07)"]


# ---------------------------------------------------------------------------- request parser (C01 C03 C04 C06, part of C05)
RP_INVARIANTS = "Geometry NeverFullUnlessStuck PrefixDetermined RepliesExact OutcomeExact BoundSuffices"


def rp_cfg(B, menu, feed):
    return ("SPECIFICATION Spec\nCONSTANTS\n  B = %d\n  Menu = %s\n  Feed = \"%s\"\nVIEW View\nACTION_CONSTRAINT Emit\n"
            "INVARIANTS %s\nPROPERTIES StickyFatal DoneSticky\nCHECK_DEADLOCK FALSE\n" % (B, cl.tla_set(menu), feed, RP_INVARIANTS))


def rp_model(ev, prop, seed, label, B, menu, feed, timeout=1500):
    name = "%s-rp-%s" % (prop, label)
    cfg = rp_cfg(B, menu, feed)
    stats, h = cl.run_tlc_piped(name, "MC_ReqParser", cfg, ["rp-replay", "--prop", prop, "--seed", str(seed), "--threads", str(cl.NCPU)],
                                timeout=timeout, workers=max(4, cl.NCPU - 4))
    ev.add_tlc("MC_ReqParser B=%d menu=%s feed=%s" % (B, ",".join(menu), feed), stats)
    ev.add_harness("edge-cover replay on request::Parser (%s)" % label, h)


RP_BIND = {
    "C01": ["done", "conv", "req", "env"],
    "C03": ["done", "out", "conv", "room", "err", "req", "env", "left"],
    "C04": ["out"],
    "C05": ["left", "conv"],
    "C06": ["room", "err", "conv"],
}


def rp_traces(ev, prop, seed, scenarios, label="traces"):
    name = "%s-rp-%s" % (prop, label)
    wd = os.path.join(cl.OUT, name)
    os.makedirs(wd, exist_ok=True)
    trace = os.path.join(wd, "trace.ndjson")
    h = cl.run_harness(name, ["rp-trace", "--prop", prop, "--seed", str(seed), "--scenarios", str(scenarios), "--trace", trace])
    ev.add_harness("seeded drivers on request::Parser (recorded)", h, as_traces=False)
    cfg = "SPECIFICATION TraceSpec\nCONSTANT Bind = %s\nPOSTCONDITION Accepted\nCHECK_DEADLOCK FALSE\n" % cl.tla_set(RP_BIND[prop])
    events, rejected = cl.validate_trace(ev, prop, name, "Trace_ReqParser", cfg, trace,
                                         {"cmd": "rp-trace", "prop": prop, "seed": seed, "scenarios": scenarios})
    runs = (h.get("extra") or {}).get("trace_runs", 0)
    ev.traces += runs
    ev.extra.setdefault("trace_events_validated", 0)
    ev.extra["trace_events_validated"] += events
    # exact configuration: implementation-shaped fields; a rejection is DRIFT, not a violation
    cfgx = "SPECIFICATION TraceSpec\nCONSTANT Bind = %s\nPOSTCONDITION Accepted\nCHECK_DEADLOCK FALSE\n" % cl.tla_set(RP_BIND[prop] + ["free"])
    if rejected == 0:
        st = cl.run_trace_validation(name + "-exact", "Trace_ReqParser", cl.write_cfg(name + "-exact", "Trace_ReqParser.cfg", cfgx), trace)
        if st["rejected"] or not st["ok"]:
            print("DRIFT: request parser free-space accounting differs from the implementation-shaped model (%s)" % (st["rejected"][:1],))
            ev.drifts += 1
    os.remove(trace)


@check("C01")
def c01(ev, tier, seed):
    ev.rule = ("MC_ReqParser menu: well-formed preambles (3 roles x flags x paddings; 7 pair lists with 1- and 4-byte length "
               "prefixes, empty names/values, duplicate and case-variant keys, a non-UTF-8 name; every cut of the Params payload "
               "into <=4 records for one list, <=3 / <=2 for the others; one interleaved GetValues / unknown / foreign record at "
               "every gap) x every partition into parse(n) calls with n from the feed set. Invariants: PrefixDetermined "
               "(state equals the canonical byte-by-byte parse), OutcomeExact (request, last-wins environment, leftover equal the "
               "reference RefReq/RefEnv). Every transition is replayed on the real parser (edge cover); traces of seeded drivers "
               "with realistic and boundary sizes (127/128/65535/70000-byte pairs, buffers 24..70016) are validated by "
               "Trace_ReqParser. Non-trivial: a history that fed at least one byte / an input longer than 16 bytes.")
    feed = "all" if tier == "thorough" else "quick"
    rp_model(ev, "C01", seed, "b24", 24, ["cuts", "pad", "inter"], feed)
    if tier == "thorough":
        rp_model(ev, "C01", seed, "b32", 32, ["cuts", "pad", "inter"], "all")
    rp_traces(ev, "C01", seed, 2000 if tier == "thorough" else 150)
    ev.exhaustive = False
    ev.assumptions = ["request ids are sampled (the code only tests id == own and id == 0)",
                      "name normalisation (lossy UTF-8 + ASCII upper case) is computed with std and enters the model as the abstract key",
                      "the lexer (harness/src/wire.rs) describes recorded byte strings for the trace specification"]


@check("C03")
def c03(ev, tier, seed):
    ev.rule = ("Hostile menu of MC_ReqParser (bad versions, BeginRequest with wrong length / id 0 / unknown role, aborts, stale "
               "stream records, wire truncated at every offset) x every partition into calls incl. parse(0) and calls after "
               "done/fatal; StickyFatal/DoneSticky as action properties; plus seeded random and mutated byte strings under >= 3 "
               "chunkings each, traced and validated (all fields bound), panics caught. Stream parser part: see the second stage.")
    rp_model(ev, "C03", seed, "hostile", 24, ["hostile", "trunc", "inter"], "all")
    if tier == "thorough":
        rp_model(ev, "C03", seed, "hostile32", 32, ["hostile", "trunc", "inter", "bound"], "all")
    rp_traces(ev, "C03", seed, 4000 if tier == "thorough" else 300)
    ev.exhaustive = False
    ev.assumptions = ["announced lengths above 10^9 are clamped by the lexer (TLC integers are 32-bit); no driver completes such a pair"]


@check("C04")
def c04(ev, tier, seed):
    ev.rule = ("Reply menu: GetValues bodies (known / unknown / repeated names, values, trailing partial pair, empty body, non-zero "
               "id), unknown types, foreign and duplicate BeginRequest, unknown role, AbortRequest during Params, at every record "
               "gap of a request, split across calls at every offset; RepliesExact compares all replies so far with the reference "
               "list (due offsets); replies are compared as bytes in the replay and as decoded descriptors in traces.")
    rp_model(ev, "C04", seed, "replies", 24, ["inter", "hostile"], "all")
    rp_traces(ev, "C04", seed, 2000 if tier == "thorough" else 200)
    ev.exhaustive = False
    ev.assumptions = ["an unknown-type record is answered with the record's own request id (what the code and its test do)",
                      "a GetValues record with an empty body or a non-zero id gets no reply"]


@check("C06")
def c06(ev, tier, seed):
    ev.rule = ("Bound menu: a pair of name+value size B-14..B-1 with both length encodings, placed after a small pair, payload cut at "
               "the start / inside each prefix / at the name-value seam / at the end; B in {24,32,40}; BoundSuffices (no StuckOnInput "
               "when every pair <= B-13) and NeverFullUnlessStuck in every state; the size rule AlignedBuf is checked by TLC for "
               "n in 0..4100 and on the code for every n <= 70000 and around powers of two up to 2^20.")
    for B in ([24, 32, 40] if tier == "thorough" else [24, 32]):
        rp_model(ev, "C06", seed, "bound%d" % B, B, ["bound"], "all" if tier == "thorough" or B == 24 else "quick")
    stats, h = cl.run_tlc_piped("C06-abuf", "MC_Codec06", "MC_Codec06.cfg", ["vectors", "--prop", "C06"])
    ev.add_tlc("MC_Codec06 (AlignedBuf)", stats)
    ev.add_harness("buffer-size vectors on Parser::new", h)
    hs = cl.run_harness("C06-bufsweep", ["sweep-bufsize", "--max", "1048600" if tier == "thorough" else "70000"])
    ev.add_harness("buffer-size sweep against the vector-validated rule", hs, as_traces=False)
    rp_traces(ev, "C06", seed, 1500 if tier == "thorough" else 200)
    ev.exhaustive = False
    ev.assumptions = ["buffer sizes near usize::MAX are not allocatable and outside the stated range"]
