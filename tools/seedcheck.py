#!/usr/bin/env python3
"""seedcheck.py <seed-name> <property> <worktree> [checks...]
Confirms a seeded change produced by a sub-agent (compiles, existing tests pass, demo fails with / passes without),
stores it under /verif/seeded/<seed-name>/, then applies it to /repo, runs the given checks (default: the property's
quick check) and undoes it.  Prints a one-line verdict."""
import json, os, shutil, subprocess, sys, time
name, prop, wt = sys.argv[1], sys.argv[2], sys.argv[3]
checks = sys.argv[4:] or [prop]
out = os.path.join("/verif/seeded", name)
os.makedirs(out, exist_ok=True)
def run(cmd, cwd=None, timeout=1800):
    r = subprocess.run(cmd, shell=True, cwd=cwd, stdout=subprocess.PIPE, stderr=subprocess.STDOUT, text=True, timeout=timeout)
    return r.returncode, r.stdout
src = os.path.join(wt, "OUT")
patch = os.path.join(src, "patch.diff")
demo = os.path.join(src, "seeded_demo.rs")
meta = {"name": name, "property": prop, "ran": []}
# fresh scratch worktree to confirm independently of the agent's state
scratch = "/var/tmp/verif-seedcheck-%s" % name
run("git -C /repo worktree remove --force %s" % scratch)
rc, o = run("git -C /repo worktree add -q %s HEAD" % scratch)
assert rc == 0, o
try:
    rc, o = run("git apply %s" % patch, cwd=scratch); meta["ran"].append(["git apply patch.diff", rc])
    assert rc == 0, "patch does not apply: " + o
    rc1, o1 = run("cargo test --offline --workspace 2>&1 | grep -E '^test result|FAILED|^error' | head -5", cwd=scratch)
    rc2, o2 = run("cargo test --offline --features async,http 2>&1 | grep -E '^test result|FAILED|^error' | head -5", cwd=scratch)
    meta["existing_tests_with_change"] = {"default": o1.strip().splitlines()[:2], "async_http": o2.strip().splitlines()[:2]}
    ok_existing = "68 passed; 0 failed" in o1 and "82 passed; 0 failed" in o2
    os.makedirs(os.path.join(scratch, "tests"), exist_ok=True)
    shutil.copy(demo, os.path.join(scratch, "tests", "seeded_demo.rs"))
    rcw, ow = run("cargo test --offline --features async,http --test seeded_demo 2>&1 | grep -E '^test result|panicked' | head -4", cwd=scratch)
    run("git apply -R %s" % patch, cwd=scratch)
    rcwo, owo = run("cargo test --offline --features async,http --test seeded_demo 2>&1 | grep -E '^test result|panicked' | head -4", cwd=scratch)
    meta["demo_with_change"] = ow.strip().splitlines()[:3]
    meta["demo_without_change"] = owo.strip().splitlines()[:3]
    demo_ok = ("FAILED" in ow or "failed" in ow and "0 failed" not in ow) and ("0 failed" in owo and "test result: ok" in owo)
    meta["confirmed"] = bool(ok_existing and demo_ok)
finally:
    run("git -C /repo worktree remove --force %s" % scratch)
    shutil.rmtree(scratch, ignore_errors=True)
shutil.copy(patch, os.path.join(out, "patch.diff"))
shutil.copy(demo, os.path.join(out, "seeded_demo.rs"))
notes = os.path.join(src, "notes.md")
if os.path.exists(notes):
    shutil.copy(notes, os.path.join(out, "notes.md"))
# run our checks against the change
det = {}
rc, o = run("git -C /repo status --short | grep -v '^??' | head -3")
assert o.strip() == "", "/repo has local edits: " + o
rc, o = run("git -C /repo apply %s" % os.path.join(out, "patch.diff"))
assert rc == 0, o
try:
    for c in checks:
        t = time.time()
        rc, o = run("./check %s --tier quick" % c, cwd="/verif", timeout=1500)
        viol = [l for l in o.splitlines() if l.startswith("VIOLATION")]
        what = [l.strip()[:300] for l in o.splitlines() if l.strip().startswith("what:")][:2]
        det[c] = {"exit": rc, "violations": len(viol), "first": what, "wall_s": round(time.time() - t, 1)}
finally:
    run("git -C /repo checkout -- .")
meta["detected_by"] = det
meta["caught"] = any(v["exit"] == 1 and v["violations"] > 0 for v in det.values())
json.dump(meta, open(os.path.join(out, "meta.json"), "w"), indent=1)
print("%s property=%s confirmed=%s caught=%s %s" % (name, prop, meta.get("confirmed"), meta["caught"], {k: (v["exit"], v["violations"]) for k, v in det.items()}))
