#!/usr/bin/env python3
"""seedregress.py [name-prefix...]
Regression over the stored seeded changes: applies each /verif/seeded/<name>/patch.diff to /repo, runs the quick
checks that are recorded as catching it (meta.json detected_by with exit 1), undoes it, and reports seeds that are
no longer caught.  Updates detected_by in meta.json.  Run after any change that relaxes a specification or harness."""
import glob, json, os, subprocess, sys, time
pref = sys.argv[1:]
def run(cmd, cwd=None, timeout=1800):
    r = subprocess.run(cmd, shell=True, cwd=cwd, stdout=subprocess.PIPE, stderr=subprocess.STDOUT, text=True, timeout=timeout)
    return r.returncode, r.stdout
lost = []
for d in sorted(glob.glob("/verif/seeded/*")):
    name = os.path.basename(d)
    if pref and not any(name.startswith(p) for p in pref):
        continue
    mp = os.path.join(d, "meta.json")
    m = json.load(open(mp))
    checks = [k for k, v in m.get("detected_by", {}).items() if v.get("exit") == 1] or [m["property"]]
    rc, o = run("git -C /repo status --short | grep -v '^??' | head -3")
    assert o.strip() == "", "/repo has local edits: " + o
    rc, o = run("git -C /repo apply %s" % os.path.join(d, "patch.diff"))
    assert rc == 0, name + ": " + o
    try:
        for c in checks:
            t = time.time()
            rc, o = run("./check %s --tier quick" % c, cwd="/verif", timeout=1500)
            viol = [l for l in o.splitlines() if l.startswith("VIOLATION")]
            what = [l.strip()[:300] for l in o.splitlines() if l.strip().startswith("what:")][:2]
            m["detected_by"][c] = {"exit": rc, "violations": len(viol), "first": what, "wall_s": round(time.time() - t, 1)}
    finally:
        run("git -C /repo checkout -- .")
    m["caught"] = any(v["exit"] == 1 and v["violations"] > 0 for v in m["detected_by"].values())
    json.dump(m, open(mp, "w"), indent=1)
    print("%s caught=%s %s" % (name, m["caught"], {k: (v["exit"], v["violations"]) for k, v in m["detected_by"].items()}), flush=True)
    if not m["caught"]:
        lost.append(name)
print("NOT CAUGHT:", lost)
