#!/usr/bin/env python3
"""Regenerates the seeded-changes table in DESIGN.md (between the SEEDED markers) from /verif/seeded/*/meta.json."""
import glob, json, os, re
V = os.path.dirname(os.path.dirname(os.path.abspath(__file__)))
rows = []
for d in sorted(glob.glob(os.path.join(V, "seeded", "*"))):
    mp = os.path.join(d, "meta.json")
    if not os.path.exists(mp):
        continue
    m = json.load(open(mp))
    diff = open(os.path.join(d, "patch.diff")).read()
    files = sorted(set(re.findall(r"^\+\+\+ b/(\S+)", diff, re.M)))
    det = m.get("detected_by", {})
    caught = [k for k, v in det.items() if v.get("exit") == 1 and v.get("violations", 0) > 0]
    first = ""
    for k in caught:
        if det[k].get("first"):
            first = det[k]["first"][0].replace("what: ", "")[:170].replace("|", "/")
            break
    rows.append("| `%s` | %s | %s | %s | %s | %s |" % (m["name"], m["property"], ", ".join(f.replace("src/", "") for f in files),
                m.get("needs", "see notes.md"), ("**" + ", ".join(caught) + "**") if caught else "not caught", first))
table = ("| seeded change | breaks | file | needs, to manifest | caught by (quick) | first report |\n|---|---|---|---|---|---|\n" + "\n".join(rows))
p = os.path.join(V, "DESIGN.md")
s = open(p).read()
if "SEEDED_TABLE" in s:
    s = s.replace("SEEDED_TABLE", "<!-- SEEDED:BEGIN -->\n" + table + "\n<!-- SEEDED:END -->")
else:
    s = re.sub(r"<!-- SEEDED:BEGIN -->.*?<!-- SEEDED:END -->", lambda _: "<!-- SEEDED:BEGIN -->\n" + table + "\n<!-- SEEDED:END -->", s, flags=re.S)
open(p, "w").write(s)
print(len(rows), "rows")
