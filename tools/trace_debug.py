#!/usr/bin/env python3
"""trace_debug.py <trace.ndjson> <event-number> [module]: isolates the run containing the event and reports
which bound field makes the Trace spec reject it (one TLC run per field)."""
import json, os, subprocess, sys
sys.path.insert(0, os.path.dirname(os.path.abspath(__file__)))
import checklib as cl
trace, d = sys.argv[1], int(sys.argv[2])
module = sys.argv[3] if len(sys.argv) > 3 else "Trace_Parsers"
runs = cl.split_runs(trace)
n = 0
for first, lines in runs:
    if n < d <= n + len(lines):
        break
    n += len(lines)
k = d - n
path = os.path.join(cl.OUT, "debug-run.ndjson")
open(path, "w").writelines(lines)
print("run has %d events; rejected event is #%d of the run" % (len(lines), k))
for i in range(max(1, k - 3), k + 1):
    e = json.loads(lines[i - 1]); e.pop("wire", None); print(i, json.dumps(e)[:600])
fields = ["done", "out", "conv", "room", "err", "req", "env", "left", "active", "sbuf", "olen", "boundary", "count", "end", "outcount", "got", "setstream", "free"]
for f in [None] + fields:
    cfg = "SPECIFICATION TraceSpec\nCONSTANT Bind = %s\nPOSTCONDITION Accepted\nCHECK_DEADLOCK FALSE\n" % cl.tla_set([f] if f else [])
    st = cl.run_trace_validation("debug", module, cl.write_cfg("debug", module + ".cfg", cfg), path, timeout=300)
    print("%-10s %s" % (f or "(none)", "REJECTED " + " ".join(st["rejected"])[:120] if st["rejected"] or not st["ok"] else "accepted"))
